//! hpke-mc: bounded-exhaustive exploration of rust-hpke against reference models.
//! usage: hpke-mc <Cxx> [--tier quick|thorough] [--replay FILE] [--root DIR] [--threads N]
//!                      [--transcript FILE] [--part NAME]
//! exit: 0 = held on everything explored, 1 = violation(s), 2 = machinery error

use hpke_mc::engine::{finish, replay_part, run_part, Cfg, Part, PartReport, Tier};
use hpke_mc::{obs, props, refmodel, session, suites};
use std::path::PathBuf;
use std::time::Instant;

struct Args {
    cfg: Cfg,
    transcript: Option<PathBuf>,
    emit_part: Option<PathBuf>,
    merge_part: Vec<PathBuf>,
    cases: Option<PathBuf>,
}

fn parse() -> Args {
    let a: Vec<String> = std::env::args().collect();
    if a.len() < 2 {
        eprintln!("usage: hpke-mc <Cxx> [--tier quick|thorough] [--replay FILE] [--root DIR] [--threads N] [--transcript FILE]");
        std::process::exit(2);
    }
    let mut cfg = Cfg {
        prop: a[1].clone(),
        tier: match std::env::var("VERIF_TIER").as_deref() {
            Ok("thorough") => Tier::Thorough,
            _ => Tier::Quick,
        },
        seed: std::env::var("VERIF_SEED").ok().and_then(|s| s.parse().ok()).unwrap_or(0),
        threads: std::thread::available_parallelism().map(|n| n.get()).unwrap_or(4),
        root: PathBuf::from("/verif"),
        replay: None,
        wall_cap_s: 3600,
        only_part: None,
    };
    let mut transcript = None;
    let mut emit_part = None;
    let mut merge_part = vec![];
    let mut cases = None;
    let mut i = 2;
    while i < a.len() {
        let need = |i: usize| -> String {
            a.get(i + 1).cloned().unwrap_or_else(|| {
                eprintln!("missing value for {}", a[i]);
                std::process::exit(2)
            })
        };
        match a[i].as_str() {
            "--tier" => {
                cfg.tier = if need(i) == "thorough" { Tier::Thorough } else { Tier::Quick };
                i += 1;
            }
            "--replay" => {
                cfg.replay = Some(PathBuf::from(need(i)));
                i += 1;
            }
            "--root" => {
                cfg.root = PathBuf::from(need(i));
                i += 1;
            }
            "--threads" => {
                cfg.threads = need(i).parse().unwrap_or(4);
                i += 1;
            }
            "--cap" => {
                cfg.wall_cap_s = need(i).parse().unwrap_or(3600);
                i += 1;
            }
            "--transcript" => {
                transcript = Some(PathBuf::from(need(i)));
                i += 1;
            }
            "--emit-part" => {
                emit_part = Some(PathBuf::from(need(i)));
                i += 1;
            }
            "--merge-part" => {
                merge_part.push(PathBuf::from(need(i)));
                i += 1;
            }
            "--cases" => {
                cases = Some(PathBuf::from(need(i)));
                i += 1;
            }
            "--part" => {
                cfg.only_part = Some(need(i));
                i += 1;
            }
            other => {
                eprintln!("unknown argument {}", other);
                std::process::exit(2);
            }
        }
        i += 1;
    }
    Args { cfg, transcript, emit_part, merge_part, cases }
}

/// Either runs the part, or - in replay mode - re-executes the one case of the replay file if it
/// belongs to this part.
fn go<P: Part>(p: &P, cfg: &Cfg, reports: &mut Vec<PartReport>, replayed: &mut Option<bool>) {
    if let Some(f) = &cfg.only_part {
        if !p.name().contains(f.as_str()) {
            return;
        }
    }
    if let Some(path) = &cfg.replay {
        let v: serde_json::Value = serde_json::from_str(&std::fs::read_to_string(path).expect("cannot read replay file")).expect("replay file is not JSON");
        if v["part"].as_str() != Some(&format!("{}{}", p.name(), variant_suffix())) {
            return;
        }
        match replay_part(p, cfg, &v["case"]) {
            Ok(out) => {
                println!("replay of {} (part {}): {} comparisons, {} mismatches", path.display(), p.name(), out.transitions, out.mismatches.len());
                for m in &out.mismatches {
                    println!("  MISMATCH {}{}", if m.key.is_empty() { String::new() } else { format!("[{}] ", m.key) }, m.msg);
                }
                *replayed = Some(out.mismatches.is_empty());
            }
            Err(e) => {
                eprintln!("{}", e);
                std::process::exit(2);
            }
        }
        return;
    }
    let mut rep = run_part(p, cfg);
    rep.name = format!("{}{}", rep.name, variant_suffix());
    eprintln!(
        "  part {}: cases {} transitions {} validated {} violating {} outcomes {} ({:.1}s)",
        rep.name, rep.run, rep.transitions, rep.validated, rep.violations.len(), rep.outcomes.len(), rep.wall_s
    );
    reports.push(rep);
}

/// set by ./check when the same exploration is repeated with a differently built library (e.g. the profile a
/// release user gets); it becomes part of the part name so that replays find the right binary
fn variant_suffix() -> String {
    std::env::var("HPKE_MC_VARIANT").map(|v| format!("@{}", v)).unwrap_or_default()
}

fn main() {
    let args = parse();
    let cfg = args.cfg;
    obs::install_panic_hook();
    let t0 = Instant::now();
    if let Err(e) = refmodel::self_test() {
        eprintln!("MACHINERY-ERROR reference model self-test failed: {}", e);
        std::process::exit(2);
    }
    if cfg.prop == "C17-expect" {
        // R1's version of the transcript printed by /verif/probes/src/bin/inplace.rs
        c17_expect();
        return;
    }
    let mut reports: Vec<PartReport> = vec![];
    let mut replayed: Option<bool> = None;
    let mut level = "model_checking";
    let mut assumptions: Vec<String> = vec![
        "R1 (harness/src/refmodel.rs) is a correct transcription of RFC 9180; it is pinned by the Appendix A vectors in its self-test and by the independent Python reference R2".into(),
        "primitive cores shared between R1 and the crate's dependency tree (sha2, aes-gcm, chacha20poly1305, x25519-dalek, p256/p384/p521 scalar multiplication) are correct; pinned by R2's from-scratch primitives on the transcript sub-grid".into(),
        "byte contents outside the fill patterns and lengths outside the listed sets are not covered".into(),
    ];
    match cfg.prop.as_str() {
        "C01" => go(&props::c01::C01, &cfg, &mut reports, &mut replayed),
        "C02" => {
            let p = props::c02::C02 { transcript: args.transcript.as_ref().map(|_| std::sync::Mutex::new(vec![])) };
            go(&p, &cfg, &mut reports, &mut replayed);
            if let (Some(path), Some(t)) = (&args.transcript, &p.transcript) {
                std::fs::write(path, t.lock().unwrap().join("\n") + "\n").expect("cannot write transcript");
            }
        }
        "C03" => {
            let p = props::c03::C03 { transcript: args.transcript.as_ref().map(|_| std::sync::Mutex::new(vec![])) };
            go(&p, &cfg, &mut reports, &mut replayed);
            if let (Some(path), Some(t)) = (&args.transcript, &p.transcript) {
                std::fs::write(path, t.lock().unwrap().join("\n") + "\n").expect("cannot write transcript");
            }
        }
        "C04" => {
            let t = cfg.tier.thorough();
            assumptions.push("sequence positions outside SEQ_STARTS, the consecutive run from 0 and the embedding windows are not covered; the context has no state besides (seq, overflowed) and its immutable keys (explored separately by the unmerged history trees and C18)".into());
            go(&session::NonceFormula { suites: session::seq_suites(t), run_len: if t { 1 << 24 } else { 1 << 12 } }, &cfg, &mut reports, &mut replayed);
            go(&session::E2a { focus: session::Focus::Sender, suites: session::seq_suites(false), ws: if t { vec![3, 4, 5] } else { vec![3] } }, &cfg, &mut reports, &mut replayed);
            let mut starts: Vec<u64> = (0..4).map(|d| u64::MAX - d).collect();
            starts.extend_from_slice(&[0, 254, (1 << 32) - 2, (1 << 56) - 1, u64::MAX - 5]);
            go(&session::E2b { suites: session::seq_suites(false), starts, depth: if t { 8 } else { 5 }, letters: vec![0, 1, 10, 12, 14], label: "sender".into() }, &cfg, &mut reports, &mut replayed);
        }
        "C05" => {
            let t = cfg.tier.thorough();
            assumptions.push("the adversary's corruption alphabet is the 11 classes of session.rs (one representative position each; C06 enumerates every bit); positions outside the start sets and embedding windows are not covered".into());
            go(&session::E2a { focus: session::Focus::Receiver, suites: session::seq_suites(false), ws: if t { vec![3, 4, 5] } else { vec![3] } }, &cfg, &mut reports, &mut replayed);
            if let Some(path) = &args.cases {
                // the state graph dumped by TLC (see model/, produced by ./check)
                match session::load_tlc_edges(path) {
                    Ok(edges) => {
                        let stats = std::fs::read_to_string(path.with_extension("stats.json")).ok().and_then(|s| serde_json::from_str(&s).ok()).unwrap_or(serde_json::Value::Null);
                        let w = stats["W"].as_u64().unwrap_or(2) as u8;
                        go(&session::E2aTlc { edges, w, suites: session::seq_suites(false), tlc_stats: stats }, &cfg, &mut reports, &mut replayed);
                    }
                    Err(e) => {
                        eprintln!("MACHINERY-ERROR {}", e);
                        std::process::exit(2);
                    }
                }
            }
            let starts: Vec<u64> = if t { session::seq_starts().into_iter().filter(|p| *p % 2 == 1 || *p > u64::MAX - 4 || *p < 3).collect() } else { vec![0, 255, (1 << 32) - 1, (1 << 56) - 1, u64::MAX - 3, u64::MAX - 2, u64::MAX - 1, u64::MAX] };
            go(&session::E2b { suites: session::seq_suites(false), starts, depth: if t { 4 } else { 3 }, letters: (0..16).filter(|l| *l != 14).collect(), label: "full".into() }, &cfg, &mut reports, &mut replayed);
            go(&session::LongRuns { suites: session::seq_suites(false), n_fail: if t { 600_000 } else { 150_000 }, n_ok: if t { 300_000 } else { 70_000 } }, &cfg, &mut reports, &mut replayed);
            // a deeper tree from the two ends of the sequence space
            go(&session::E2b { suites: session::seq_suites(false), starts: if t { vec![0, u64::MAX - 2, u64::MAX - 1] } else { vec![u64::MAX - 1] }, depth: if t { 5 } else { 4 }, letters: (0..16).filter(|l| *l != 14).collect(), label: "deep".into() }, &cfg, &mut reports, &mut replayed);
        }
        "C06" => go(&props::c06::C06, &cfg, &mut reports, &mut replayed),
        "C07" => go(&props::c07::C07, &cfg, &mut reports, &mut replayed),
        "C08" => go(&props::c08::C08, &cfg, &mut reports, &mut replayed),
        "C09" | "C12" => {
            let path = args.cases.clone().unwrap_or_else(|| cfg.root.join("target").join("c09_cases.json"));
            let cases = match props::c09::load_cases(&path) {
                Ok(c) => c,
                Err(e) => {
                    eprintln!("MACHINERY-ERROR {} (generate it with ref/gen_c09.py; ./check does)", e);
                    std::process::exit(2);
                }
            };
            assumptions.push("the verdict for every NIST encoding comes from R2's from-scratch predicate (ref/prims.py), whose curve constants are self-validated by ref/anchors.py".into());
            if cfg.prop == "C09" {
                go(&props::c09::C09 { cases }, &cfg, &mut reports, &mut replayed);
            } else {
                go(&props::c09::C12 { accepted: cases }, &cfg, &mut reports, &mut replayed);
            }
        }
        "C10" => go(&props::c10::C10, &cfg, &mut reports, &mut replayed),
        "C13" => {
            go(&props::c13::C13, &cfg, &mut reports, &mut replayed);
            // many malformed deliveries to ONE context: nothing may panic or overflow however many arrive
            let t = cfg.tier.thorough();
            if suites::HOOKS {
                go(&session::LongRuns { suites: session::seq_suites(false), n_fail: if t { 600_000 } else { 150_000 }, n_ok: 1 }, &cfg, &mut reports, &mut replayed);
            }
        }
        "C14" => go(&props::c14::C14, &cfg, &mut reports, &mut replayed),
        "C15" => go(&props::c14::C15, &cfg, &mut reports, &mut replayed),
        "C11" => {
            let t = cfg.tier.thorough();
            go(&props::c11::C11, &cfg, &mut reports, &mut replayed);
            let mut suites = vec![];
            for s in suites::all_suites() {
                if s.kem == refmodel::Kem::X25519 || (t && s.kem == refmodel::Kem::P256) {
                    if s.aead.can_seal() {
                        suites.push(s);
                    }
                }
            }
            if suites::HOOKS {
                go(&session::E2a { focus: session::Focus::Export, suites, ws: vec![3] }, &cfg, &mut reports, &mut replayed);
            }
        }
        "C16" => {
            level = "exploration";
            assumptions.push("observes the harness's release build, the object's own storage and ledgered temporaries only; stale copies left by moves and key schedules inside the AEAD cipher instance are outside the property".into());
            go(&props::c16::C16, &cfg, &mut reports, &mut replayed);
        }
        other => {
            eprintln!("unknown property {}", other);
            std::process::exit(2);
        }
    }
    if cfg.replay.is_some() {
        match replayed {
            Some(true) => std::process::exit(0),
            Some(false) => std::process::exit(1),
            None => {
                eprintln!("replay file does not belong to any part of {}", cfg.prop);
                std::process::exit(2)
            }
        }
    }
    if let Some(path) = &args.emit_part {
        // this run only contributes parts to another run's evidence (e.g. the guard-off build)
        std::fs::write(path, serde_json::to_string(&reports).unwrap()).expect("cannot write part file");
        let bad: usize = reports.iter().map(|r| r.violations.len()).sum();
        eprintln!("  emitted {} part(s) to {} ({} violating cases)", reports.len(), path.display(), bad);
        std::process::exit(0);
    }
    for path in &args.merge_part {
        let extra: Vec<PartReport> = serde_json::from_str(&std::fs::read_to_string(path).expect("cannot read part file")).expect("bad part file");
        reports.extend(extra);
    }
    if reports.is_empty() {
        eprintln!("MACHINERY-ERROR nothing was run");
        std::process::exit(2);
    }
    let s = finish(&cfg, level, reports, assumptions, t0);
    if s.violations > 0 {
        std::process::exit(1);
    }
    if s.machinery_errors > 0 {
        std::process::exit(2);
    }
}

fn c17_expect() {
    use hpke_mc::obs::hex;
    use hpke_mc::refmodel::{setup_r, setup_s, Aead, Kdf, Kem, Mode, SuiteId, KEMS, MODES};
    let ikm = |tag: u8, n: usize| -> Vec<u8> { (0..n).map(|i| (i as u8).wrapping_mul(37).wrapping_add(tag)).collect() };
    for kem in KEMS {
        let name = kem.name();
        let nsk = kem.nsk();
        let (sk_r, pk_r, _) = kem.derive_keypair(&ikm(1, nsk));
        let (sk_s, pk_s, _) = kem.derive_keypair(&ikm(2, nsk));
        println!("{} derive sk_r {} pk_r {}", name, hex(&sk_r), hex(&pk_r));
        let psk = ikm(3, 32);
        let psk_id = ikm(4, 9);
        let info = b"c17 probe";
        for (mi, mode) in MODES.iter().enumerate() {
            // the probe numbers its modes 0 Base, 1 Psk, 2 Auth, 3 AuthPsk = RFC mode ids
            let mode: Mode = *mode;
            assert_eq!(mode.id() as usize, mi);
            let s1 = SuiteId { kem, kdf: Kdf::Sha256, aead: Aead::ChaCha20Poly1305 };
            let (enc, mut c) = setup_s(s1, mode, &pk_r, info, &psk, &psk_id, Some((&sk_s, &pk_s)), &ikm(5 + mi as u8, nsk)).unwrap();
            let ct = c.seal(b"aad", b"in-place plaintext").unwrap();
            let (body, tag) = ct.split_at(ct.len() - 16);
            let ex = c.export(b"exp", 32).unwrap();
            println!("{} mode {} enc {} ct {} tag {} export {}", name, mi, hex(&enc), hex(body), hex(tag), hex(&ex));
            if mi == 0 {
                // for the wipe probe (not part of the in-place probe's transcript)
                println!("#wipe {}:{}:{}", name, hex(&c.exporter_secret), hex(&c.base_nonce));
            }
            let mut r = setup_r(s1, mode, &enc, &sk_r, info, &psk, &psk_id, Some(&pk_s)).unwrap();
            let pt = r.open(b"aad", &ct).unwrap();
            println!("{} mode {} opened {} rexport {}", name, mi, hex(&pt), hex(&r.export(b"exp", 32).unwrap()));
            let s2 = SuiteId { kem, kdf: Kdf::Sha512, aead: Aead::Aes128Gcm };
            let (enc, mut c) = setup_s(s2, mode, &pk_r, info, &psk, &psk_id, Some((&sk_s, &pk_s)), &ikm(5 + mi as u8, nsk)).unwrap();
            let ct = c.seal(b"a", b"single shot").unwrap();
            let (body, tag) = ct.split_at(ct.len() - 16);
            let mut r = setup_r(s2, mode, &enc, &sk_r, info, &psk, &psk_id, Some(&pk_s)).unwrap();
            println!("{} mode {} ss-ct {} ss-tag {} ss-opened {}", name, mi, hex(body), hex(tag), hex(&r.open(b"a", &ct).unwrap()));
        }
        let s3 = SuiteId { kem, kdf: Kdf::Sha512, aead: Aead::ExportOnly };
        let (_, c) = setup_s(s3, Mode::Base, &pk_r, info, b"", b"", None, &ikm(9, nsk)).unwrap();
        println!("{} export-only {}", name, hex(&c.export(b"", 48).unwrap()));
        // the yes/no facts of the probe's `behaviour` section
        for fact in [
            "rejects modified and out-of-order deliveries",
            "accepts the messages in order and rejects a replay",
            "export succeeds up to 255*Nh and fails beyond",
            "serialized sizes and length errors",
            "keys survive a serialization round trip",
            "invalid key material is refused",
            "psk and psk_id together or not at all",
            "a mismatched receiver shares no key material",
        ] {
            println!("{} {} true", name, fact);
        }
        let _ = Kem::X25519;
    }
}
