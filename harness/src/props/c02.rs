//! C02 - wire-exact RFC 9180: implementation vs R1 in lock-step, both directions.
//! A sub-grid is also written as a transcript that the independent Python reference R2 recomputes.

use super::*;
use crate::engine::{Cfg, Part};
use crate::refmodel::{Aead, Mode, SuiteId, MODES};
use crate::rng::{bytes, Fill, ScriptRng, FILLS_ALL, FILLS_QUICK};
use crate::suites::{all_suites, suite_ops};
use serde::{Deserialize, Serialize};

#[derive(Clone, Debug, Serialize, Deserialize)]
pub struct Case {
    pub suite: SuiteId,
    pub mode: Mode,
    pub info_len: usize,
    pub psk_len: usize,
    pub psk_id_len: usize,
    /// (plaintext length, aad length) per message
    pub msgs: Vec<(usize, usize)>,
    pub fill: Fill,
    pub tag: u64,
    /// the bytes the caller's RNG hands out are this hex string instead of the seeded ones (boundary witness)
    #[serde(default)]
    pub rng_hex: Option<String>,
    /// equality relations between inputs that are otherwise independent (0 = none): 1 psk_id == info, 2 psk == info,
    /// 3 psk == psk_id, 4 psk == psk_id == info == every aad, 5 every aad == info (and one exporter context == info),
    /// 6 info == the recipient's public key bytes, 7 psk_id == the encapsulated-key-sized prefix of info, 8 the RNG hands out
    /// the bytes the recipient key was derived from (skE = skR, enc = pkR), 9 the same with the sender identity key,
    /// 10 every plaintext == its aad == info, 11 every plaintext == psk and one exporter context == psk;
    /// value classes of psk / psk_id / info: 12 trailing ASCII whitespace ("key\n", "id \t"), 13 trailing and leading NUL
    /// bytes, 14 leading whitespace and a psk that is all spaces
    #[serde(default)]
    pub equal: u8,
}

pub struct C02 {
    /// when set, every case run appends a transcript line (for R2)
    pub transcript: Option<std::sync::Mutex<Vec<String>>>,
}

pub const EXPORT_CTX_LENS: [usize; 4] = [0, 1, 11, 300];

fn export_ctx(i: usize, seed: u64) -> Vec<u8> {
    match i {
        0 => vec![],
        1 => vec![0],
        2 => b"TestContext".to_vec(),
        _ => bytes(Fill::Mix, 300, 77, seed),
    }
}

pub fn msg_sets(thorough: bool) -> Vec<Vec<(usize, usize)>> {
    // (an empty plaintext at an odd index is opened through the allocating open)
    let mut v = vec![vec![], vec![(29, 7), (0, 5), (0, 0), (0, 0)]];
    v.push(vec![(0, 0), (1, 16), (17, 1)]);
    if thorough {
        v.push(vec![(16, 0), (65, 65), (0, 17)]);
        v.push(vec![(65, 16), (16, 17), (1, 1)]);
        // every (pt, aad) pair of {0,1,16,17,65}^2 occurs in one long sequence
        let l = [0usize, 1, 16, 17, 65];
        let mut all = vec![];
        for p in l {
            for a in l {
                all.push((p, a));
            }
        }
        v.push(all);
    }
    v
}

impl Part for C02 {
    type Case = Case;
    fn name(&self) -> String {
        "E1-lockstep-R1".into()
    }
    fn rule(&self) -> String {
        "cartesian product suite x mode x info length x (psk,psk_id) shape x message-shape sequence x fill; each case runs the implementation sender against R1 (enc, every ciphertext via alternating seal APIs, 20 exports) and the implementation receiver against R1-produced enc/ciphertexts (with corrupted copies delivered in between), the four single-shot forms against the same wire data; non-trivial = at least one non-empty output compared".into()
    }
    fn bound(&self, cfg: &Cfg) -> String {
        if cfg.tier.thorough() {
            "48 suites x 4 modes x 6 info lengths x 5 psk shapes (psk modes) x 6 message sequences (up to 25 messages) x 2 of 5 fills rotating; 11 equality relations between inputs and 3 value classes (whitespace, NUL) x 48 suites x modes; every length 0..600 of info / psk / psk_id for 3 suites".into()
        } else {
            "48 suites x 4 modes x 2 info lengths x 2 psk shapes (psk modes) x 3 message sequences x 1 fill; 11 equality relations between inputs and 3 value classes (whitespace, NUL) x 16 suites x modes; every length 0..300 of info / psk / psk_id for 3 suites".into()
        }
    }
    fn enumerate(&self, cfg: &Cfg) -> Vec<Case> {
        let t = cfg.tier.thorough();
        let infos: Vec<usize> = if t { INFO_LENS.to_vec() } else { vec![0, 20] };
        let psks: Vec<(usize, usize)> = if t { PSK_SHAPES.to_vec() } else { vec![(32, 22), (64, 1)] };
        let mut v = vec![];
        let mut tag = 0u64;
        for suite in all_suites() {
            for mode in MODES {
                for &info_len in &infos {
                    let shapes = if mode.has_psk() { psks.clone() } else { vec![(0, 0)] };
                    for (psk_len, psk_id_len) in shapes {
                        for (mi, msgs) in msg_sets(t).into_iter().enumerate() {
                            if !suite.aead.can_seal() && mi > 0 {
                                continue;
                            }
                            tag += 1;
                            let fills: Vec<Fill> = if t {
                                vec![FILLS_ALL[(tag % 5) as usize], FILLS_ALL[((tag + 2) % 5) as usize]]
                            } else {
                                vec![FILLS_QUICK[(tag % 2) as usize]]
                            };
                            for fill in fills {
                                v.push(Case { suite, mode, info_len, psk_len, psk_id_len, msgs: msgs.clone(), fill, tag, rng_hex: None, equal: 0 });
                            }
                        }
                    }
                }
            }
        }
        // inputs that happen to be EQUAL to one another (they are independent in the RFC; nothing may key on the relation)
        for suite in all_suites() {
            if !(t || suite.kdf == suite.kem.kdf()) {
                continue;
            }
            for mode in MODES {
                for equal in 1..=14u8 {
                    if !mode.has_psk() && matches!(equal, 1 | 2 | 3 | 4 | 7 | 11 | 12 | 13 | 14) {
                        continue;
                    }
                    if !mode.has_auth() && equal == 9 {
                        continue;
                    }
                    tag += 1;
                    v.push(Case { suite, mode, info_len: 17, psk_len: if mode.has_psk() { 17 } else { 0 }, psk_id_len: if mode.has_psk() { 17 } else { 0 }, msgs: vec![(9, 17), (0, 17)], fill: Fill::Mix, tag, rng_hex: None, equal });
                }
            }
        }
        // every LENGTH of info, psk_id and psk up to a few hash blocks (one suite per KDF): exports and one message vs R1
        for suite in all_suites() {
            if suite.kem != crate::refmodel::Kem::X25519 || suite.aead != crate::refmodel::Aead::ChaCha20Poly1305 {
                continue;
            }
            let n = if t { 600 } else { 300 };
            for l in 0..=n {
                tag += 1;
                v.push(Case { suite, mode: Mode::Base, info_len: l, psk_len: 0, psk_id_len: 0, msgs: vec![(3, 1)], fill: Fill::Mix, tag, rng_hex: None, equal: 0 });
                if l > 0 {
                    v.push(Case { suite, mode: Mode::Psk, info_len: 5, psk_len: l, psk_id_len: 4, msgs: vec![(3, 1)], fill: Fill::Mix, tag, rng_hex: None, equal: 0 });
                    v.push(Case { suite, mode: Mode::AuthPsk, info_len: 5, psk_len: 32, psk_id_len: l, msgs: vec![(3, 1)], fill: Fill::Mix, tag, rng_hex: None, equal: 0 });
                }
            }
        }
        // P-256: the RNG hands out an ikm whose first DeriveKeyPair candidate is >= n (Appendix B witness)
        for suite in all_suites() {
            if suite.kem == crate::refmodel::Kem::P256 && suite.kdf == crate::refmodel::Kdf::Sha256 {
                for mode in MODES {
                    tag += 1;
                    v.push(Case { suite, mode, info_len: 3, psk_len: if mode.has_psk() { 32 } else { 0 }, psk_id_len: if mode.has_psk() { 4 } else { 0 }, msgs: vec![(5, 1)], fill: Fill::Mix, tag, rng_hex: Some(super::c03::P256_RETRY_WITNESS_32.into()), equal: 0 });
                }
            }
        }
        v
    }
    fn run(&self, cfg: &Cfg, c: &Case) -> CaseOut {
        let mut out = CaseOut::new();
        let ops = suite_ops(c.suite);
        let mut k = keys(c.suite.kem, c.tag, cfg.seed);
        if let Some(h) = &c.rng_hex {
            k.ikm_e = crate::obs::unhex(h);
        }
        match c.equal {
            8 => k.ikm_e = bytes(Fill::Mix, c.suite.kem.nsk(), c.tag.wrapping_mul(3) + 1, cfg.seed),
            9 => k.ikm_e = bytes(Fill::Mix, c.suite.kem.nsk(), c.tag.wrapping_mul(3) + 2, cfg.seed),
            _ => {}
        }
        let info = bytes(c.fill, c.info_len, 10, cfg.seed);
        // PSK material: all-zero psk is a legal psk; keep psk != psk_id (different tags)
        let psk = bytes(c.fill, c.psk_len, 11, cfg.seed ^ 0xabcd);
        let psk_id = bytes(c.fill, c.psk_id_len, 12, cfg.seed ^ 0x1234);
        let (mut info, mut psk, mut psk_id) = (info, psk, psk_id);
        match c.equal {
            1 => psk_id = info.clone(),
            2 => psk = info.clone(),
            3 => psk = psk_id.clone(),
            4 => {
                psk = info.clone();
                psk_id = info.clone();
            }
            12 => {
                psk = [&psk[..], b"\n"].concat();
                psk_id = [&psk_id[..], b" \t"].concat();
                info = [&info[..], b"\r\n"].concat();
            }
            13 => {
                psk = [&[0u8][..], &psk[..], &[0u8, 0][..]].concat();
                psk_id = [&psk_id[..], &[0u8][..]].concat();
                info = [&info[..], &[0u8][..]].concat();
            }
            14 => {
                psk = vec![b' '; 32];
                psk_id = [b"  ", &psk_id[..]].concat();
                info = [b"\t", &info[..]].concat();
            }
            6 => info = k.pk_r.clone(),
            7 => {
                info = [&k.pk_r[..], b"/session"].concat();
                psk_id = k.pk_r.clone();
            }
            _ => {}
        }
        let (info, psk, psk_id) = (info, psk, psk_id);
        let m = mode_spec(c.mode, &k, &psk, &psk_id);
        out.outcome = format!("{:?}/{}{}", c.mode, c.suite.aead.name(), if c.equal > 0 { "/equal-inputs" } else { "" });

        // ---------------- direction S: implementation sender vs R1 ----------------
        let (enc_ref, mut ref_s) = match r1_setup_s(c.suite, &m, &k.pk_r, &info, &k.ikm_e) {
            Some(x) => x,
            None => {
                out.fail_machinery("R1 could not set up the sender for valid keys (reference bug)");
                return out;
            }
        };
        let mut rng = ScriptRng::new(&k.ikm_e);
        let (enc, mut s) = match ops.setup_sender(&m, &k.pk_r, &info, &mut rng).need("setup_sender") {
            Ok(x) => x,
            Err(e) => {
                out.transitions += 1;
                out.fail(e);
                return out;
            }
        };
        expect_bytes(&mut out, "enc (SetupS with skE = DeriveKeyPair(first Nsk RNG bytes))", &Obs::Ok(enc.clone()), &enc_ref);
        let drawn_setup = rng.drawn();
        out.check("setup_sender draws at least Nsk bytes from the caller's RNG", drawn_setup >= c.suite.kem.nsk());
        out.notes.push(format!("rng draw pattern in setup: {:?}", rng.log));
        let mut transcript_msgs = vec![];
        let mut cts = vec![];
        if c.suite.aead.can_seal() {
            for (i, &(pl, al)) in c.msgs.iter().enumerate() {
                let pt = match c.equal {
                    10 => info.clone(),
                    11 => psk.clone(),
                    _ => bytes(c.fill, pl, 100 + i as u64, cfg.seed),
                };
                let aad = if matches!(c.equal, 4 | 5 | 10) { info.clone() } else { bytes(c.fill, al, 200 + i as u64, cfg.seed) };
                let want = ref_s.seal(&aad, &pt).unwrap();
                let got = if i % 2 == 0 {
                    s.seal(&pt, &aad)
                } else {
                    let mut buf = pt.clone();
                    s.seal_ip(&mut buf, &aad).map(|tag| {
                        let mut v = buf.clone();
                        v.extend_from_slice(&tag);
                        v
                    })
                };
                expect_bytes(&mut out, &format!("ciphertext #{} (ContextS.Seal)", i), &got, &want);
                transcript_msgs.push((pt, aad, want.clone()));
                cts.push(want);
            }
        }
        let nh = c.suite.kdf.nh();
        let mut transcript_exports = vec![];
        let mut high: Vec<(u64, Vec<u8>, Vec<u8>)> = vec![];
        let nh0 = c.suite.kdf.nh();
        for ci in 0..EXPORT_CTX_LENS.len() {
            let ectx = export_ctx(ci, cfg.seed);
            for l in [0usize, 1, nh, nh + 1, 255] {
                let want = ref_s.export(&ectx, l).unwrap();
                let got = s.export(&ectx, l);
                expect_bytes(&mut out, &format!("sender export(ctx#{}, L={})", ci, l), &got, &want);
                if l == nh + 1 {
                    transcript_exports.push((ectx.clone(), l, want));
                }
            }
        }
        if c.equal > 0 {
            // exporter context equal to the info string / to the psk_id
            for ectx in [&info, &psk_id, &psk] {
                let want = ref_s.export(ectx, nh + 1).unwrap();
                expect_bytes(&mut out, "sender export(ctx = another input of the session)", &s.export(ectx, nh + 1), &want);
            }
        }
        out.check("no RNG draws after setup", rng.drawn() == drawn_setup);
        // ciphertexts at high sequence numbers (reached with the hook): ContextS.Seal is defined for every seq
        if crate::suites::HOOKS && c.suite.aead.can_seal() && !c.msgs.is_empty() {
            for (i, p) in [1u64 << 32, (1u64 << 40) + 1, (1u64 << 56) + 2, u64::MAX - 1].into_iter().enumerate() {
                s.set_seq(p);
                let pt = bytes(c.fill, 9, 300 + i as u64, cfg.seed);
                let want = ref_s.seal_at(p as u128, b"hi", &pt);
                expect_bytes(&mut out, &format!("ciphertext at sequence {:#x}", p), &s.seal(&pt, b"hi"), &want);
                high.push((p, pt, want));
            }
            // ... including the last one, 2^64-1; Context.Export does not depend on the sequence number, so the
            // exported secrets are the same before and after the context has used up its sequence numbers
            s.set_seq(u64::MAX);
            let pt = bytes(c.fill, 4, 310, cfg.seed);
            let want = ref_s.seal_at(u64::MAX as u128, b"last", &pt);
            expect_bytes(&mut out, "ciphertext at sequence 2^64-1", &s.seal(&pt, b"last"), &want);
            high.push((u64::MAX, pt, want));
            let ectx = export_ctx(2, cfg.seed);
            expect_bytes(&mut out, "sender export after the last sequence number was used", &s.export(&ectx, nh0), &ref_s.export(&ectx, nh0).unwrap());
        }

        // ---------------- direction R: implementation receiver vs R1-produced wire data ----------------
        let ref_r = r1_setup_r(c.suite, &m, &enc_ref, &k.sk_r, &info);
        match &ref_r {
            Some(rr) => {
                out.check("R1 sender and R1 receiver agree (reference sanity)", rr.key == ref_s.key && rr.exporter_secret == ref_s.exporter_secret);
            }
            None => out.fail_machinery("R1 receiver setup failed (reference bug)"),
        }
        match ops.setup_receiver(&m, &k.sk_r, &enc_ref, &info).need("setup_receiver on R1's enc") {
            Ok(mut r) => {
                for (i, ct) in cts.iter().enumerate() {
                    let (pt, aad, _) = &transcript_msgs[i];
                    // a real channel also delivers garbage: a rejected copy right before the genuine message (every third
                    // message, through the other API) must not change what the receiver does with the genuine one
                    if i % 3 == 1 {
                        let mut bad = ct.clone();
                        let l = bad.len();
                        bad[l - 1] ^= 1;
                        let nt = c.suite.aead.nt();
                        let rej = if i % 2 == 0 {
                            r.open(&bad, aad).map(|_| ())
                        } else {
                            let mut buf = bad[..l - nt].to_vec();
                            r.open_ip(&mut buf, aad, &bad[l - nt..])
                        };
                        out.transitions += 1;
                        if rej != Obs::Err(hpke::HpkeError::OpenError) {
                            out.fail(format!("receiver: corrupted copy of R1 ciphertext #{}: {} want Err(OpenError)", i, rej.class()));
                        }
                    }
                    let got = if i % 2 == 1 {
                        r.open(ct, aad)
                    } else {
                        let nt = c.suite.aead.nt();
                        let mut buf = ct[..ct.len() - nt].to_vec();
                        r.open_ip(&mut buf, aad, &ct[ct.len() - nt..]).map(|_| buf.clone())
                    };
                    expect_bytes(&mut out, &format!("receiver opens R1 ciphertext #{}", i), &got, pt);
                }
                for (p, pt, ct) in &high {
                    r.set_seq(*p);
                    let aad: &[u8] = if *p == u64::MAX { b"last" } else { b"hi" };
                    expect_bytes(&mut out, &format!("receiver opens R1 ciphertext sealed at sequence {:#x}", p), &r.open(ct, aad), pt);
                }
                for ci in 0..EXPORT_CTX_LENS.len() {
                    let ectx = export_ctx(ci, cfg.seed);
                    for l in [0usize, 1, nh, nh + 1, 255] {
                        let want = ref_s.export(&ectx, l).unwrap();
                        expect_bytes(&mut out, &format!("receiver export(ctx#{}, L={})", ci, l), &r.export(&ectx, l), &want);
                    }
                }
            }
            Err(e) => {
                out.transitions += 1;
                out.fail(e);
            }
        }

        // ---------------- one RNG object serving two setups in a row ----------------
        // each setup draws exactly the Nsk bytes its ephemeral key is derived from, so the second session's key comes from
        // the NEXT Nsk bytes of the caller's stream
        if c.rng_hex.is_none() && c.tag % 3 == 0 {
            let ikm2 = bytes(Fill::Mix, c.suite.kem.nsk(), 9000 + c.tag, cfg.seed);
            let script = [&k.ikm_e[..], &ikm2[..], &[0x3c; 80][..]].concat();
            let mut rng2 = ScriptRng::new(&script);
            let first = ops.setup_sender(&m, &k.pk_r, &info, &mut rng2).map(|x| x.0);
            let second = ops.setup_sender(&m, &k.pk_r, &info, &mut rng2);
            out.transitions += 2;
            match (first, second, r1_setup_s(c.suite, &m, &k.pk_r, &info, &ikm2)) {
                (Obs::Ok(e1), Obs::Ok((e2, s2)), Some((e2_ref, r2))) => {
                    if e1 != enc_ref {
                        out.fail("first of two setups on one RNG object: enc differs from R1");
                    }
                    if e2 != e2_ref {
                        out.fail(format!("second setup on the same RNG object: enc is not the public key of DeriveKeyPair(the NEXT Nsk bytes of the stream) - {} bytes were drawn in total", rng2.drawn()));
                    }
                    expect_bytes(&mut out, "second setup on the same RNG object: export", &s2.export(b"second", 32), &r2.export(b"second", 32).unwrap());
                }
                (a, b, _) => out.fail(format!("two setups on one RNG object: {} / {}", a.map(|_| ()).class(), b.map(|_| ()).class())),
            }
        }

        // ---------------- the single-shot forms against R1's wire data ----------------
        if c.suite.aead.can_seal() && !transcript_msgs.is_empty() && c.tag % 2 == 0 {
            let (pt, aad, ct) = &transcript_msgs[0];
            let nt = c.suite.aead.nt();
            let mut rng = ScriptRng::new(&k.ikm_e);
            expect_bytes(&mut out, "single_shot_seal = R1's enc || first ciphertext", &ops.single_shot_seal(&m, &k.pk_r, &info, pt, aad, &mut rng).map(|(e, c)| [e, c].concat()), &[enc_ref.clone(), ct.clone()].concat());
            let mut rng = ScriptRng::new(&k.ikm_e);
            let mut buf = pt.clone();
            let ss = ops.single_shot_seal_ip(&m, &k.pk_r, &info, &mut buf, aad, &mut rng).map(|(e, t)| [e, buf.clone(), t].concat());
            expect_bytes(&mut out, "single_shot_seal_in_place_detached = R1's enc || first ciphertext", &ss, &[enc_ref.clone(), ct.clone()].concat());
            expect_bytes(&mut out, "single_shot_open of R1's first ciphertext", &ops.single_shot_open(&m, &k.sk_r, &enc_ref, &info, ct, aad), pt);
            let mut buf = ct[..ct.len() - nt].to_vec();
            let so = ops.single_shot_open_ip(&m, &k.sk_r, &enc_ref, &info, &mut buf, aad, &ct[ct.len() - nt..]).map(|_| buf.clone());
            expect_bytes(&mut out, "single_shot_open_in_place_detached of R1's first ciphertext", &so, pt);
        }

        // ---------------- transcript for R2 ----------------
        if let Some(t) = &self.transcript {
            use crate::obs::hex;
            let line = serde_json::json!({
                "kind": "session",
                "kem": c.suite.kem.id(), "kdf": c.suite.kdf.id(), "aead": c.suite.aead.id(), "mode": c.mode.id(),
                "info": hex(&info), "psk": hex(&m.psk), "psk_id": hex(&m.psk_id),
                "sk_r": hex(&k.sk_r), "pk_r": hex(&k.pk_r), "sk_s": hex(&m.sk_s), "pk_s": hex(&m.pk_s),
                "ikm_e": hex(&k.ikm_e),
                "impl_enc": hex(&enc),
                "msgs": transcript_msgs.iter().map(|(pt, aad, ct)| serde_json::json!({"pt": hex(pt), "aad": hex(aad), "ct": hex(ct)})).collect::<Vec<_>>(),
                "exports": transcript_exports.iter().map(|(x, l, v)| serde_json::json!({"ctx": hex(x), "len": l, "value": hex(v)})).collect::<Vec<_>>(),
                "ok": out.mismatches.is_empty(),
            });
            t.lock().unwrap().push(line.to_string());
        }
        let _ = Aead::ExportOnly;
        out
    }
}
