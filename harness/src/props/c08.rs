//! C08 - sender authentication: in Auth/AuthPsk a receiver expecting pkS only gets a working
//! context from the holder of skS; in the PSK modes the same for possession of the PSK.

use super::c07::{must_not_share, must_share, produce};
use super::*;
use crate::engine::{Cfg, Part};
use crate::refmodel::{Aead, Kdf, Kem, Mode, SuiteId, KEMS};
use crate::rng::{bytes, Fill};
use crate::suites::ModeSpec;
use serde::{Deserialize, Serialize};

#[derive(Clone, Debug, Serialize, Deserialize)]
pub struct Case {
    pub suite: SuiteId,
    /// the mode the RECEIVER runs in
    pub mode: Mode,
    pub psk_len: usize,
    pub tag: u64,
}

pub struct C08;

impl Part for C08 {
    type Case = Case;
    fn name(&self) -> String {
        "E1-sender-auth".into()
    }
    fn rule(&self) -> String {
        "4 KEMs x receiver mode {Auth, AuthPsk, Psk} x key sets x suites; the receiver (expecting pkS / holding the PSK) is confronted with sessions produced by impostors: (a) a different consistent identity pair, (b) the victim's PUBLIC key paired with a foreign private key, (c) the same keys in the non-authenticated mode (Base resp. Psk), (d) for NIST curves the negated identity (n - skS, -pkS), (e) every single-bit variant of the PSK and of the PSK id (PSK modes), truncated / extended PSKs; oracle: receiver setup fails, or no ciphertext opens and every export differs; positive control: the honest sender is accepted; a case = one receiver with all impostors".into()
    }
    fn bound(&self, cfg: &Cfg) -> String {
        if cfg.tier.thorough() {
            "4 KEMs x 3 receiver modes x 4 key sets x 3 (KDF,AEAD) combinations x PSK lengths {32, 64, 300}".into()
        } else {
            "4 KEMs x 3 receiver modes x 2 key sets x 1-2 (KDF,AEAD) combinations x PSK lengths {32, 300}".into()
        }
    }
    fn enumerate(&self, cfg: &Cfg) -> Vec<Case> {
        let t = cfg.tier.thorough();
        let mut v = vec![];
        for kem in KEMS {
            let combos: Vec<(Kdf, Aead)> = if t {
                vec![(Kdf::Sha256, Aead::ChaCha20Poly1305), (Kdf::Sha512, Aead::Aes128Gcm), (Kdf::Sha384, Aead::ExportOnly)]
            } else if kem == Kem::X25519 || kem == Kem::P256 {
                vec![(Kdf::Sha256, Aead::ChaCha20Poly1305), (Kdf::Sha512, Aead::ExportOnly)]
            } else {
                vec![(Kdf::Sha384, Aead::Aes256Gcm)]
            };
            for (kdf, aead) in combos {
                for mode in [Mode::Auth, Mode::AuthPsk, Mode::Psk] {
                    for ks in 0..(if t { 4 } else { 2 }) {
                        // 0 = the (legal) empty bundle; 33 = a PSK and id that END IN ASCII WHITESPACE (value class, see run)
                        let lens: Vec<usize> = if !mode.has_psk() { vec![32] } else if t { vec![32, 64, 300, 0, 33] } else if ks == 0 { vec![32, 300, 0, 33] } else { vec![32, 300] };
                        for psk_len in lens {
                            v.push(Case { suite: SuiteId { kem, kdf, aead }, mode, psk_len, tag: 8000 + ks });
                        }
                    }
                }
            }
        }
        v
    }
    fn run(&self, cfg: &Cfg, c: &Case) -> CaseOut {
        let mut out = CaseOut::new();
        out.outcome = format!("{:?}/{}", c.mode, c.suite.kem.name());
        // second pass for the Auth modes: the expected sender IS the recipient (a party that seals to itself); relations
        // between the keys of a session must not switch the identity check off
        for self_addressed in [false, true] {
        if self_addressed && !c.mode.has_auth() {
            continue;
        }
        let mut k = keys(c.suite.kem, c.tag, cfg.seed);
        if self_addressed {
            k.sk_s = k.sk_r.clone();
            k.pk_s = k.pk_r.clone();
        }
        let k = k;
        let evil = keys(c.suite.kem, c.tag + 555, cfg.seed);
        let info = bytes(Fill::Mix, 20, 10, cfg.seed);
        let mut psk = bytes(Fill::Mix, c.psk_len, 11, cfg.seed);
        let mut psk_id = if c.psk_len == 0 { vec![] } else { bytes(Fill::Mix, 22, 12, cfg.seed) };
        if c.psk_len == 33 {
            psk[32] = b'\n';
            psk_id[21] = b' ';
        }
        let (psk, psk_id) = (psk, psk_id);
        // the receiver's view
        let m_r = mode_spec(c.mode, &k, &psk, &psk_id);
        // honest sender: positive control
        match produce(c.suite, &m_r, &k.pk_r, &info, &k.ikm_e, cfg.seed) {
            Ok((enc, p)) => {
                if !must_share(&mut out, "honest sender", c.suite, &m_r, &k.sk_r, &enc, &info, &p) {
                    return out;
                }
            }
            Err(e) => {
                out.fail(format!("honest sender could not be set up: {}", e));
                return out;
            }
        }
        let mut impostor = |out: &mut CaseOut, what: String, m_s: ModeSpec| {
            match produce(c.suite, &m_s, &k.pk_r, &info, &k.ikm_e, cfg.seed) {
                Ok((enc, p)) => {
                    must_not_share(out, &format!("{} receiver {:?}{}: impostor [{}]", c.suite.name(), c.mode, if self_addressed { " expecting its OWN key as sender key" } else { "" }, what), c.suite, &m_r, &k.sk_r, &enc, &info, &p);
                }
                Err(_) => {
                    // the impostor cannot even produce a session: nothing to accept
                    out.transitions += 1;
                }
            }
            out.nontrivial = true;
        };
        if c.mode.has_auth() {
            let mut m = m_r.clone();
            m.sk_s = evil.sk_s.clone();
            m.pk_s = evil.pk_s.clone();
            impostor(&mut out, "different consistent identity pair".into(), m);
            let mut m = m_r.clone();
            m.sk_s = evil.sk_s.clone();
            impostor(&mut out, "victim's public key paired with a foreign private key".into(), m);
            if !self_addressed {
                let mut m = m_r.clone();
                m.sk_s = k.sk_r.clone();
                impostor(&mut out, "victim's public key paired with the RECIPIENT's private key".into(), m);
            }
            // the same sender without authentication
            let na = if c.mode == Mode::Auth { Mode::Base } else { Mode::Psk };
            let mut m = m_r.clone();
            m.kind = na.id();
            m.sk_s = vec![];
            m.pk_s = vec![];
            impostor(&mut out, format!("non-authenticated mode {:?} with the same PSK data", na), m);
            if let (Some(nsk), Some(npk)) = (c.suite.kem.neg_sk(&k.sk_s), c.suite.kem.neg_pk(&k.pk_s)) {
                let mut m = m_r.clone();
                m.sk_s = nsk;
                m.pk_s = npk;
                // (pairing pkS with n - skS is NOT an impostor: whoever can compute it holds skS, and
                // ECDH only uses the x coordinate, so RFC 9180 itself accepts that sender)
                impostor(&mut out, "negated identity (n - skS, -pkS): same DH x-coordinate, different pkSm".into(), m);
            }
            // the other auth mode
            let oa = if c.mode == Mode::Auth { Mode::AuthPsk } else { Mode::Auth };
            let mut m = m_r.clone();
            m.kind = oa.id();
            if oa.has_psk() {
                m.psk = psk.clone();
                m.psk_id = psk_id.clone();
            } else {
                m.psk = vec![];
                m.psk_id = vec![];
            }
            impostor(&mut out, format!("honest identity but mode {:?}", oa), m);
        }
        if c.mode.has_psk() && psk.is_empty() {
            // receiver with the empty bundle: senders holding SOME psk, and (AuthPsk) the non-authenticated modes
            let mut m = m_r.clone();
            m.psk = evil.ikm_e.clone();
            m.psk_id = b"id".to_vec();
            impostor(&mut out, "a non-empty bundle against a receiver with the empty bundle".into(), m);
            if c.mode == Mode::AuthPsk {
                for na in [Mode::Base, Mode::Psk] {
                    let mut m = m_r.clone();
                    m.kind = na.id();
                    m.sk_s = vec![];
                    m.pk_s = vec![];
                    impostor(&mut out, format!("non-authenticated mode {:?} against an AuthPsk receiver with the empty bundle", na), m);
                }
            }
        }
        if c.mode.has_psk() && c.psk_len == 33 {
            for (what, p2) in [("last byte another whitespace", { let mut p = psk.clone(); p[32] = b' '; p }), ("without its trailing whitespace", psk[..32].to_vec()), ("with a second trailing whitespace", [&psk[..], b"\n"].concat()), ("last byte NUL", { let mut p = psk.clone(); p[32] = 0; p })] {
                let mut m = m_r.clone();
                m.psk = p2;
                impostor(&mut out, format!("psk {}", what), m);
            }
            for (what, i2) in [("last byte another whitespace", { let mut p = psk_id.clone(); p[21] = b'\t'; p }), ("without its trailing whitespace", psk_id[..21].to_vec())] {
                let mut m = m_r.clone();
                m.psk_id = i2;
                impostor(&mut out, format!("psk_id {}", what), m);
            }
        }
        if c.mode.has_psk() && !psk.is_empty() {
            let stride = if matches!(c.suite.kem, Kem::P384 | Kem::P521) || c.psk_len > 64 { 7 } else { 1 };
            let n = psk.len() * 8;
            let mut bits: Vec<usize> = (0..n).step_by(stride).collect();
            bits.extend_from_slice(&[n - 1, n - 8, 255.min(n - 1), 256.min(n - 1), 511.min(n - 1), 512.min(n - 1)]);
            bits.sort();
            bits.dedup();
            for b in bits {
                let mut m = m_r.clone();
                m.psk[b / 8] ^= 1 << (b % 8);
                impostor(&mut out, format!("psk with bit {} flipped", b), m);
            }
            for b in (0..psk_id.len() * 8).step_by(stride) {
                let mut m = m_r.clone();
                m.psk_id[b / 8] ^= 1 << (b % 8);
                impostor(&mut out, format!("psk_id with bit {} flipped", b), m);
            }
            let mut m = m_r.clone();
            m.psk.pop();
            impostor(&mut out, "psk without its last byte".into(), m);
            let mut m = m_r.clone();
            m.psk.push(0);
            impostor(&mut out, "psk + 00".into(), m);
            let mut m = m_r.clone();
            m.psk = vec![];
            m.psk_id = vec![];
            impostor(&mut out, "empty bundle".into(), m);
            let mut m = m_r.clone();
            m.psk = evil.ikm_e.clone();
            impostor(&mut out, "unrelated psk, same id".into(), m);
            if c.mode == Mode::Psk {
                let mut m = m_r.clone();
                m.kind = Mode::Base.id();
                m.psk = vec![];
                m.psk_id = vec![];
                impostor(&mut out, "Base mode sender".into(), m);
            }
        }
        }
        out
    }
}
