//! C06 - integrity: every single-bit flip / truncation / extension / cross-message substitution of
//! ciphertext, tag or aad is rejected with OpenError by all four opening interfaces.

use super::*;
use crate::engine::{Cfg, Part};
use crate::refmodel::{Mode, SuiteId};
use crate::rng::{bytes, Fill};
use crate::suites::{seal_suites, suite_ops, RCtx};
use hpke::HpkeError;
use serde::{Deserialize, Serialize};

#[derive(Clone, Copy, Debug, PartialEq, Eq, Serialize, Deserialize)]
pub enum Iface {
    Open,
    OpenInPlace,
    SingleShotOpen,
    SingleShotOpenInPlace,
}
pub const IFACES: [Iface; 4] = [Iface::Open, Iface::OpenInPlace, Iface::SingleShotOpen, Iface::SingleShotOpenInPlace];

#[derive(Clone, Debug, Serialize, Deserialize)]
pub struct Case {
    pub suite: SuiteId,
    pub mode: Mode,
    /// position of the target message in the session (0 or 2; single-shot forms only take 0)
    pub pos: usize,
    /// which target message (index into the message shapes)
    pub shape: usize,
    pub iface: Iface,
    /// the session's messages sit at the END of the sequence space: the target (index 2) is sealed at
    /// sequence number 2^64-1 (reached with the hook, then two real opens)
    #[serde(default)]
    pub last: bool,
    /// > 0: substitution between two messages of one session whose sequence numbers differ by 2^distant (reached with
    /// the hook): same plaintext, different aad; the body of one with tag and aad of the other must be rejected
    #[serde(default)]
    pub distant: u8,
    /// the target message's aad EQUALS the session's info string (two independent inputs that happen to coincide)
    #[serde(default)]
    pub aad_is_info: bool,
    /// the target message has an aad of 70000 bytes; the variants touch it at and around offset 65535 and at its end
    #[serde(default)]
    pub long_aad: bool,
}

pub struct C06;

/// (pt length, aad length); the last three are value witnesses, see `witness_aad`
pub const SHAPES: [(usize, usize); 12] = [(0, 0), (1, 0), (16, 1), (17, 16), (64, 17), (0, 16), (5, 1), (33, 0), (0, 8), (0, 8), (1, 8), (16, 8)];

/// For the witness shapes the aad is searched (by R1) so that a byte the attacker might cut off or
/// zero is ALREADY zero - the inputs where "truncate" and "zero-pad" coincide:
/// shape 8: last tag byte 00; shape 9: first tag byte 00; shape 10: last ciphertext-body byte 00;
/// shape 11: last tag byte 00 with a block-sized body
fn witness_aad(refctx: &crate::refmodel::Ctx, pos: u128, shape: usize, pt: &[u8]) -> Option<Vec<u8>> {
    let nt = refctx.suite.aead.nt();
    // (GHASH is GF(2)-linear in the aad: a counter in a few low bits spans only an affine subspace of the tag
    // bytes, which can miss 00 altogether - so the aad varies in 64 pseudo-random bits and in its length)
    for ctr in 0u64..20000 {
        let mut aad = b"wit-".to_vec();
        aad.extend_from_slice(&crate::rng::splitmix(ctr).to_be_bytes());
        aad.extend(std::iter::repeat(0x77).take((ctr % 5) as usize));
        let ct = refctx.seal_at(pos, &aad, pt);
        let tag = &ct[ct.len() - nt..];
        let ok = match shape {
            8 | 11 => tag[nt - 1] == 0,
            9 => tag[0] == 0,
            _ => true,
        };
        if ok {
            return Some(aad);
        }
    }
    None
}

struct Msg {
    pt: Vec<u8>,
    aad: Vec<u8>,
    ct: Vec<u8>, // body || tag
}

/// see `Case::distant`
fn distant_case(out: &mut CaseOut, cfg: &Cfg, c: &Case) {
    let ops = suite_ops(c.suite);
    let k = keys(c.suite.kem, 6500 + c.distant as u64, cfg.seed);
    let info = bytes(Fill::Mix, 12, 10, cfg.seed);
    let m = mode_spec(c.mode, &k, b"", b"");
    let nt = c.suite.aead.nt();
    let (enc, refctx) = match r1_setup_s(c.suite, &m, &k.pk_r, &info, &k.ikm_e) {
        Some(x) => x,
        None => {
            out.fail_machinery("R1 setup failed");
            return;
        }
    };
    let pt = bytes(Fill::Mix, 24, 61, cfg.seed);
    for low in [0u64, 7, 255] {
        let pa = low;
        let pb = low + (1u64 << c.distant);
        let (aad_a, aad_b) = (b"message at the low position".to_vec(), b"message at the distant position".to_vec());
        let ct_a = refctx.seal_at(pa as u128, &aad_a, &pt);
        let ct_b = refctx.seal_at(pb as u128, &aad_b, &pt);
        // (receiver position, body from, tag from, aad, what)
        let (body_a, tag_a) = ct_a.split_at(ct_a.len() - nt);
        let (body_b, tag_b) = ct_b.split_at(ct_b.len() - nt);
        let deliveries: Vec<(u64, &[u8], &[u8], &[u8], String)> = vec![
            (pb, body_a, tag_b, &aad_b, format!("body of message {} with tag and aad of message {}", pa, pb)),
            (pa, body_b, tag_a, &aad_a, format!("body of message {} with tag and aad of message {}", pb, pa)),
            (pb, body_a, tag_a, &aad_a, format!("message {} replayed at position {}", pa, pb)),
            (pa, body_b, tag_b, &aad_b, format!("message {} delivered at position {}", pb, pa)),
            (pb, body_b, tag_b, &aad_a, format!("message {} with the aad of message {}", pb, pa)),
        ];
        for (at, body, tag, aad, what) in deliveries {
            let mut r = match ops.setup_receiver(&m, &k.sk_r, &enc, &info).need("setup_receiver") {
                Ok(r) => r,
                Err(e) => {
                    out.fail(e);
                    return;
                }
            };
            r.set_seq(at);
            out.transitions += 1;
            let got = match c.iface {
                Iface::Open => r.open(&[body, tag].concat(), aad).map(|_| ()),
                _ => {
                    let mut b = body.to_vec();
                    r.open_ip(&mut b, aad, tag)
                }
            };
            if got != Obs::Err(hpke::HpkeError::OpenError) {
                out.fail(format!("{:?} at receiver position {}: {} (positions differ by 2^{}): {} want Err(OpenError)", c.iface, at, what, c.distant, got.class()));
            }
            // non-vacuity: the genuine message of that position opens
            let (gb, gt, ga) = if at == pa { (body_a, tag_a, &aad_a) } else { (body_b, tag_b, &aad_b) };
            if r.open(&[gb, gt].concat(), ga) != Obs::Ok(pt.clone()) {
                out.fail(format!("non-vacuity: the genuine message of position {} does not open after the rejected substitution", at));
            }
        }
    }
}

impl Part for C06 {
    type Case = Case;
    fn name(&self) -> String {
        "E1-integrity".into()
    }
    fn rule(&self) -> String {
        "suite x target message shape (incl. value witnesses whose last/first tag byte or last body byte is 00, found by R1 search) x position {0,2} x opening interface; per case EVERY single-bit flip of body, tag and aad, EVERY truncation length, extensions by 1..17 zero/non-zero bytes, and substitution of tag / aad / body of every other message of the session are delivered; oracle: Err(OpenError), no plaintext, and the untampered message is still accepted afterwards; non-trivial = every case".into()
    }
    fn bound(&self, cfg: &Cfg) -> String {
        if cfg.tier.thorough() {
            "36 suites x 12 shapes x 2 positions x 4 interfaces (single-shot at position 0), Base mode + AuthPsk for X25519".into()
        } else {
            "3 AEADs x 2 (KEM,KDF) pairs x 12 shapes x 2 positions x 4 interfaces, Base mode".into()
        }
    }
    fn enumerate(&self, cfg: &Cfg) -> Vec<Case> {
        let t = cfg.tier.thorough();
        let mut v = vec![];
        for suite in seal_suites() {
            let quick_pair = (suite.kem == crate::refmodel::Kem::X25519 && suite.kdf == crate::refmodel::Kdf::Sha256)
                || (suite.kem == crate::refmodel::Kem::P256 && suite.kdf == crate::refmodel::Kdf::Sha512);
            if !t && !quick_pair {
                continue;
            }
            let modes: Vec<Mode> = if t && suite.kem == crate::refmodel::Kem::X25519 { vec![Mode::Base, Mode::AuthPsk] } else { vec![Mode::Base] };
            for mode in modes {
                for shape in 0..SHAPES.len() {
                    for pos in [0usize, 2] {
                        for iface in IFACES {
                            let single = matches!(iface, Iface::SingleShotOpen | Iface::SingleShotOpenInPlace);
                            if single && pos != 0 {
                                continue;
                            }
                            // the expensive KEMs: single-shot forms pay a setup per variant
                            if single && !t && suite.kem != crate::refmodel::Kem::X25519 {
                                continue;
                            }
                            v.push(Case { suite, mode, pos, shape, iface, last: false, distant: 0, aad_is_info: false, long_aad: false });
                            if pos == 2 && !single && (shape % 4 == 0 || t) && mode == Mode::Base {
                                v.push(Case { suite, mode, pos, shape, iface, last: true, distant: 0, aad_is_info: false, long_aad: false });
                            }
                        }
                    }
                }
            }
        }
        for suite in seal_suites() {
            if suite.kdf == suite.kem.kdf() && (t || matches!(suite.kem, crate::refmodel::Kem::X25519 | crate::refmodel::Kem::P256)) {
                for iface in IFACES {
                    for shape in [2usize, 5] {
                        v.push(Case { suite, mode: Mode::Base, pos: 0, shape, iface, last: false, distant: 0, aad_is_info: true, long_aad: false });
                    }
                }
            }
        }
        for suite in seal_suites() {
            if suite.kem == crate::refmodel::Kem::X25519 && suite.kdf == crate::refmodel::Kdf::Sha256 {
                for iface in IFACES {
                    v.push(Case { suite, mode: Mode::Base, pos: 0, shape: 2, iface, last: false, distant: 0, aad_is_info: false, long_aad: true });
                }
            }
        }
        if crate::suites::HOOKS {
            for suite in seal_suites() {
                if suite.kdf != suite.kem.kdf() || !(t || matches!(suite.kem, crate::refmodel::Kem::X25519 | crate::refmodel::Kem::P256)) {
                    continue;
                }
                for distant in [8u8, 16, 24, 32, 40, 48, 56, 60, 62, 63] {
                    for iface in [Iface::Open, Iface::OpenInPlace] {
                        v.push(Case { suite, mode: Mode::Base, pos: 0, shape: 0, iface, last: false, distant, aad_is_info: false, long_aad: false });
                    }
                }
            }
        }
        v
    }
    fn run(&self, cfg: &Cfg, c: &Case) -> CaseOut {
        let mut out = CaseOut::new();
        out.nontrivial = true;
        out.outcome = format!("{:?}/{}{}{}", c.iface, c.suite.aead.name(), if c.last { "/last-seq" } else { "" }, if c.distant > 0 { "/distant-positions" } else { "" });
        if c.distant > 0 {
            distant_case(&mut out, cfg, c);
            return out;
        }
        let ops = suite_ops(c.suite);
        let k = keys(c.suite.kem, 6000 + c.shape as u64, cfg.seed);
        let info = bytes(Fill::Mix, 20, 10, cfg.seed);
        let m = mode_spec(c.mode, &k, &bytes(Fill::Mix, 32, 11, cfg.seed), &bytes(Fill::Mix, 22, 12, cfg.seed));
        let nt = c.suite.aead.nt();
        // the session is produced by R1 (an independent sender); its messages 0..=4
        let (enc, refctx) = match r1_setup_s(c.suite, &m, &k.pk_r, &info, &k.ikm_e) {
            Some(x) => x,
            None => {
                out.fail_machinery("R1 setup failed");
                return out;
            }
        };
        if c.last && !crate::suites::HOOKS {
            // needs the hook to reach the last sequence numbers; covered by the guard-on variants
            out.outcome = "skipped-needs-hook".into();
            out.nontrivial = false;
            return out;
        }
        let base: u128 = if c.last { (u64::MAX - 2) as u128 } else { 0 };
        let mut msgs: Vec<Msg> = vec![];
        for i in 0..(if c.last { 3usize } else { 5 }) {
            let shape = if i == c.pos { c.shape } else { (c.shape + 1 + i) % 8 };
            let (pl, al) = SHAPES[shape];
            let mut pt = bytes(Fill::Mix, pl, 600 + i as u64, cfg.seed);
            if i == c.pos && shape == 10 {
                // the body does not depend on the aad: choose the plaintext so that the last body byte is 00
                let probe = refctx.seal_at(base + i as u128, b"", &pt);
                let l = pt.len();
                pt[l - 1] ^= probe[l - 1];
            }
            let aad = if i == c.pos && shape >= 8 {
                match witness_aad(&refctx, base + i as u128, shape, &pt) {
                    Some(a) => a,
                    None => {
                        out.fail_machinery("no witness aad found");
                        return out;
                    }
                }
            } else {
                let mut a = bytes(Fill::Mix, al, 700 + i as u64, cfg.seed);
                a.push(i as u8); // aads of different messages differ
                a
            };
            let aad = if c.aad_is_info && i == c.pos { info.clone() } else if c.long_aad && i == c.pos { bytes(Fill::Mix, 70_000, 777, cfg.seed) } else { aad };
            let ct = refctx.seal_at(base + i as u128, &aad, &pt);
            msgs.push(Msg { pt, aad, ct });
        }
        let target = &msgs[c.pos];
        let body = &target.ct[..target.ct.len() - nt];
        let tag = &target.ct[target.ct.len() - nt..];

        // ---- the variants: (body, tag, aad, wire override) ----
        struct Var {
            body: Vec<u8>,
            tag: Vec<u8>,
            aad: Vec<u8>,
            wire: Option<Vec<u8>>,
            what: String,
        }
        let mut vars: Vec<Var> = vec![];
        let mk = |b: &[u8], t: &[u8], a: &[u8], w: Option<Vec<u8>>, what: String| Var { body: b.to_vec(), tag: t.to_vec(), aad: a.to_vec(), wire: w, what };
        for i in 0..body.len() * 8 {
            let mut b = body.to_vec();
            b[i / 8] ^= 1 << (i % 8);
            vars.push(mk(&b, tag, &target.aad, None, format!("flip ciphertext bit {}", i)));
        }
        for i in 0..tag.len() * 8 {
            let mut t = tag.to_vec();
            t[i / 8] ^= 1 << (i % 8);
            vars.push(mk(body, &t, &target.aad, None, format!("flip tag bit {}", i)));
        }
        let aad_bits: Vec<usize> = if c.long_aad {
            // around every power of two from 2^8 to 2^16 (byte offsets), and the ends
            let mut v = vec![0usize, 7];
            for e in 8..=16u32 {
                let o = 1usize << e;
                for d in [o - 1, o, o + 1] {
                    if d < target.aad.len() {
                        v.push(d * 8);
                        v.push(d * 8 + 7);
                    }
                }
            }
            v.push(target.aad.len() * 8 - 1);
            v.push(target.aad.len() * 8 - 8);
            v
        } else {
            (0..target.aad.len() * 8).collect()
        };
        for i in aad_bits {
            let mut a = target.aad.clone();
            a[i / 8] ^= 1 << (i % 8);
            vars.push(mk(body, tag, &a, None, format!("flip aad bit {}", i)));
        }
        // aad truncation / extension / empty
        let aad_cuts: Vec<usize> = if c.long_aad { vec![0, 1, 255, 256, 65534, 65535, 65536, 65537, target.aad.len() - 1] } else { (0..target.aad.len()).collect() };
        for l in aad_cuts {
            vars.push(mk(body, tag, &target.aad[..l], None, format!("aad truncated to {}", l)));
        }
        for ext in [vec![0u8], vec![0u8; 16], vec![1u8]] {
            let mut a = target.aad.clone();
            a.extend_from_slice(&ext);
            vars.push(mk(body, tag, &a, None, format!("aad extended by {:?}", ext.len())));
        }
        // the aad replaced by other strings of the session (none of them is the aad, unless the case says so)
        for (name, other) in [("the info string", info.clone()), ("the encapsulated key", enc.clone()), ("the recipient public key", k.pk_r.clone())] {
            if other != target.aad {
                vars.push(mk(body, tag, &other, None, format!("aad replaced by {}", name)));
            }
        }
        let alloc = matches!(c.iface, Iface::Open | Iface::SingleShotOpen);
        if alloc {
            // every truncation length of ct || tag
            for l in 0..target.ct.len() {
                vars.push(mk(body, tag, &target.aad, Some(target.ct[..l].to_vec()), format!("wire truncated to {} of {}", l, target.ct.len())));
                if l > 0 && l < target.ct.len() {
                    // and every removal of a prefix
                    vars.push(mk(body, tag, &target.aad, Some(target.ct[target.ct.len() - l..].to_vec()), format!("wire without its first {} bytes", target.ct.len() - l)));
                }
            }
            for n in 1..=17usize {
                for fillb in [0u8, 0xa5] {
                    let mut w = target.ct.clone();
                    w.extend(std::iter::repeat(fillb).take(n));
                    vars.push(mk(body, tag, &target.aad, Some(w), format!("wire extended by {} x {:#x}", n, fillb)));
                    let mut w = vec![fillb; n];
                    w.extend_from_slice(&target.ct);
                    vars.push(mk(body, tag, &target.aad, Some(w), format!("wire prefixed by {} x {:#x}", n, fillb)));
                }
            }
        } else {
            // detached: the tag is a fixed-size value; the body can be truncated / extended
            for l in 0..body.len() {
                vars.push(mk(&body[..l], tag, &target.aad, None, format!("body truncated to {}", l)));
            }
            for n in 1..=17usize {
                for fillb in [0u8, 0xa5] {
                    let mut b = body.to_vec();
                    b.extend(std::iter::repeat(fillb).take(n));
                    vars.push(mk(&b, tag, &target.aad, None, format!("body extended by {} x {:#x}", n, fillb)));
                    // the tag travels as bytes too (AeadTag::from_bytes): extended and truncated tags
                    let mut t = tag.to_vec();
                    t.extend(std::iter::repeat(fillb).take(n));
                    vars.push(mk(body, &t, &target.aad, None, format!("tag bytes extended by {} x {:#x}", n, fillb)));
                }
            }
            for l in 0..nt {
                vars.push(mk(body, &tag[..l], &target.aad, None, format!("tag bytes truncated to {}", l)));
            }
            if let Some(o) = msgs.iter().enumerate().find(|(j, _)| *j != c.pos).map(|x| x.1) {
                let t2 = [tag, &o.ct[o.ct.len() - nt..]].concat();
                vars.push(mk(body, &t2, &target.aad, None, "tag || tag of another message".into()));
            }
        }
        // substitutions from every other message of the session
        for (j, o) in msgs.iter().enumerate() {
            if j == c.pos {
                continue;
            }
            let obody = &o.ct[..o.ct.len() - nt];
            let otag = &o.ct[o.ct.len() - nt..];
            vars.push(mk(body, otag, &target.aad, None, format!("tag of message {}", j)));
            vars.push(mk(body, tag, &o.aad, None, format!("aad of message {}", j)));
            vars.push(mk(obody, tag, &target.aad, None, format!("body of message {}", j)));
            vars.push(mk(obody, otag, &o.aad, None, format!("whole message {} (out of order)", j)));
            vars.push(mk(obody, otag, &target.aad, None, format!("message {} with the target's aad", j)));
        }
        vars.push(mk(&vec![0u8; body.len()], &vec![0u8; nt], &target.aad, None, "all-zero body and tag".into()));
        vars.push(mk(body, &vec![0u8; nt], &target.aad, None, "all-zero tag".into()));

        // ---- run them ----
        let fresh = |out: &mut CaseOut| -> Option<Box<dyn RCtx>> {
            let mut r = match ops.setup_receiver(&m, &k.sk_r, &enc, &info).need("setup_receiver") {
                Ok(r) => r,
                Err(e) => {
                    out.fail(e);
                    return None;
                }
            };
            if c.last {
                r.set_seq(base as u64);
            }
            for i in 0..c.pos {
                if r.open(&msgs[i].ct, &msgs[i].aad) != Obs::Ok(msgs[i].pt.clone()) {
                    out.fail(format!("could not advance the receiver to position {}", c.pos));
                    return None;
                }
            }
            Some(r)
        };
        let single = matches!(c.iface, Iface::SingleShotOpen | Iface::SingleShotOpenInPlace);
        let mut r = if single { None } else { fresh(&mut out) };
        if !single && r.is_none() {
            return out;
        }
        for v in &vars {
            let wire = v.wire.clone().unwrap_or_else(|| {
                let mut w = v.body.clone();
                w.extend_from_slice(&v.tag);
                w
            });
            // skip variants that happen to be the untampered message
            if wire == target.ct && v.aad == target.aad {
                continue;
            }
            out.transitions += 1;
            let res: Obs<Vec<u8>> = match c.iface {
                Iface::Open => r.as_mut().unwrap().open(&wire, &v.aad),
                Iface::OpenInPlace => {
                    let mut b = v.body.clone();
                    r.as_mut().unwrap().open_ip(&mut b, &v.aad, &v.tag).map(|_| b.clone())
                }
                Iface::SingleShotOpen => ops.single_shot_open(&m, &k.sk_r, &enc, &info, &wire, &v.aad),
                Iface::SingleShotOpenInPlace => {
                    let mut b = v.body.clone();
                    ops.single_shot_open_ip(&m, &k.sk_r, &enc, &info, &mut b, &v.aad, &v.tag).map(|_| b.clone())
                }
            };
            match res {
                Obs::Err(HpkeError::OpenError) => {}
                // a tag of the wrong length cannot even become an AeadTag: rejected before any opening
                Obs::Pre(HpkeError::IncorrectInputLength(_, _)) if !alloc && v.tag.len() != nt => {}
                o => {
                    let detail = if let Obs::Ok(p) = &o { format!(" returning plaintext {}", crate::obs::hx(p)) } else { String::new() };
                    out.fail(format!("{:?} at position {} shape {:?}: variant '{}' got {}{} want Err(OpenError)", c.iface, c.pos, SHAPES[c.shape], v.what, o.class(), detail));
                    if !single {
                        // the context may have moved on: start over so that one defect is not reported many times
                        r = fresh(&mut out);
                        if r.is_none() || out.mismatches.len() > 12 {
                            return out;
                        }
                    }
                }
            }
        }
        // the untampered message is still accepted (streaming contexts), resp. accepted at all (single shot)
        out.transitions += 1;
        let res: Obs<Vec<u8>> = match c.iface {
            Iface::Open => r.as_mut().unwrap().open(&target.ct, &target.aad),
            Iface::OpenInPlace => {
                let mut b = body.to_vec();
                r.as_mut().unwrap().open_ip(&mut b, &target.aad, tag).map(|_| b.clone())
            }
            Iface::SingleShotOpen => ops.single_shot_open(&m, &k.sk_r, &enc, &info, &target.ct, &target.aad),
            Iface::SingleShotOpenInPlace => {
                let mut b = body.to_vec();
                ops.single_shot_open_ip(&m, &k.sk_r, &enc, &info, &mut b, &target.aad, tag).map(|_| b.clone())
            }
        };
        if res != Obs::Ok(target.pt.clone()) {
            out.fail(format!("{:?}: after {} rejected variants the untampered message at position {} is not accepted: {}", c.iface, vars.len(), c.pos, res.class()));
        }
        if single {
            // a single-shot receiver is at position 0: the untampered position-2 message must be rejected
            let o = &msgs[2.min(msgs.len() - 1)];
            out.transitions += 1;
            let res: Obs<Vec<u8>> = match c.iface {
                Iface::SingleShotOpen => ops.single_shot_open(&m, &k.sk_r, &enc, &info, &o.ct, &o.aad),
                _ => {
                    let mut b = o.ct[..o.ct.len() - nt].to_vec();
                    ops.single_shot_open_ip(&m, &k.sk_r, &enc, &info, &mut b, &o.aad, &o.ct[o.ct.len() - nt..]).map(|_| b.clone())
                }
            };
            if res != Obs::Err(HpkeError::OpenError) {
                out.fail(format!("{:?}: message sealed at position 2 accepted by a single-shot open: {}", c.iface, res.class()));
            }
        }
        out.notes.push(format!("variants per case ~{}", vars.len() / 50 * 50));
        out
    }
}
