//! C10 - X25519: an all-zero DH result aborts setup (EncapError / DecapError), nothing else does.

use super::*;
use crate::engine::{Cfg, Part};
use crate::obs::unhex;
use crate::refmodel::{Aead, Kdf, Kem, Mode, SuiteId, AEADS, KDFS, MODES};
use crate::rng::{bytes, Fill, ScriptRng};
use crate::suites::{kem_ops, suite_ops};
use hpke::HpkeError;
use serde::{Deserialize, Serialize};

/// The 7 small-order u-coordinates (little-endian); each also with bit 255 set = 14 encodings.
/// /verif/ref/x25519_small_order.py recomputes this list from scratch (R2) and the harness checks at
/// run time that every one really gives an all-zero output.
pub const SMALL_ORDER: [&str; 7] = [
    "0000000000000000000000000000000000000000000000000000000000000000",
    "0100000000000000000000000000000000000000000000000000000000000000",
    "e0eb7a7c3b41b8ae1656e3faf19fc46ada098deb9c32b1fd866205165f49b800",
    "5f9c95bca3508c24b1d0b1559c83ef5b04445cc4581c8e86d8224eddd09f1157",
    "ecffffffffffffffffffffffffffffffffffffffffffffffffffffffffffff7f",
    "edffffffffffffffffffffffffffffffffffffffffffffffffffffffffffff7f",
    "eeffffffffffffffffffffffffffffffffffffffffffffffffffffffffffff7f",
];

pub fn small_order_encodings() -> Vec<Vec<u8>> {
    let mut v = vec![];
    for s in SMALL_ORDER {
        let b = unhex(s);
        let mut h = b.clone();
        h[31] |= 0x80;
        v.push(b);
        v.push(h);
    }
    v
}

#[derive(Clone, Copy, Debug, PartialEq, Eq, Serialize, Deserialize)]
pub enum Role {
    /// the bad key is the recipient public key handed to the sender
    RecipientAtSender,
    /// the bad key is the encapsulated key handed to the receiver
    EncAtReceiver,
    /// the bad key is the sender identity key the receiver expects (Auth modes)
    SenderIdAtReceiver,
    /// the bad key is the sender's OWN identity public key (never used in a DH by the sender)
    OwnIdAtSender,
}

#[derive(Clone, Debug, Serialize, Deserialize)]
pub enum Case {
    Small { suite: SuiteId, mode: Mode, role: Role, enc_idx: usize, key_set: u64 },
    /// negatives: keys that are not of small order are never rejected and give R1's secret
    Negative { suite: SuiteId, mode: Mode, from: u32, count: u32 },
    KemLevel { enc_idx: usize, key_set: u64 },
    /// valid keys of large prime order whose DH result is SPARSE: one or more of its 8-byte words are zero (u = 9, 2^64,
    /// 9 + 9*2^128, ...). Only the all-zero result aborts setup; these must be accepted and give R1's context
    Sparse { suite: SuiteId, mode: Mode, idx: usize },
}

/// (private key 01 02 .. 20, public key, X25519(private, public)) - computed with the from-scratch ladder of ref/prims.py:
/// public = (k^-1 mod l) * T for a chosen sparse point T of the prime-order subgroup
pub const SPARSE_SK: &str = "0102030405060708090a0b0c0d0e0f101112131415161718191a1b1c1d1e1f20";
pub const SPARSE: [(&str, &str); 8] = [
    ("8a1bf6ce57170ce4c7e234b0df9bc25cfc1c5eb8a25d9cfd4b83a90ecd26d92e", "0900000000000000000000000000000000000000000000000000000000000000"),
    ("76e9118dd228beeed12e0e0db470fdb3926ade7bf13ba0da955351acc4ace308", "0000000000000000010000000000000000000000000000000000000000000000"),
    ("4598ed60fb121a8ede737b674bfc29141360d9db7c4d6340e2894df82b65f279", "0000000000000000220000000000000000000000000000000000000000000000"),
    ("f65f9ccd87e68cbe5f5257ed889d95cd3232f6ecba41453fb024d40dfa32393c", "0000000000000000260000000000000000000000000000000000000000000000"),
    ("0ea8c194f6bf7f64374e76f7ac057ec742fe340a04e7bad9ce16e777c8eb1a0a", "0900000000000000000000000000000009000000000000000000000000000000"),
    ("51bf98f85580cac27011824e1baab05bd61b7068a4c12c26fdd5201c3cc0353f", "1000000000000000000000000000000010000000000000000000000000000000"),
    ("5482eb65c6bcc3407118dba5dbe9413ec9cd4b0196bbd06552524b58efedb41d", "0700000000000000130000000000000000000000000000001300000000000000"),
    ("d98ef0fa94f70a4069ecb8b312fdda2883efb70f10ae9918b0e02a44ad9f495c", "0700000000000000250000000000000000000000000000002500000000000000"),
];

pub struct C10;

fn negative_u(i: u32) -> Vec<u8> {
    // u = 2 .. 1025, then p-2, p+2 .. p+18, 2^255-1, 2^256-1, then derived public keys and twins
    let mut b = [0u8; 32];
    if i < 1024 {
        let u = i + 2;
        b[0] = (u & 0xff) as u8;
        b[1] = (u >> 8) as u8;
    } else if i == 1024 {
        b = [0xff; 32];
        b[0] = 0xeb; // p - 2
        b[31] = 0x7f;
    } else if i < 1024 + 18 {
        b = [0xff; 32];
        b[0] = 0xed + (i - 1023) as u8; // p+2 .. p+18  (0xef..0xff)
        b[31] = 0x7f;
    } else if i == 1042 {
        b = [0xff; 32];
        b[31] = 0x7f;
    } else if i == 1043 {
        b = [0xff; 32];
    } else {
        let j = (i - 1044) as u64;
        let (_, pk, _) = Kem::X25519.derive_keypair(&j.to_le_bytes());
        b.copy_from_slice(&pk);
        if j % 2 == 1 {
            b[31] |= 0x80;
        }
    }
    b.to_vec()
}
pub const N_NEG: u32 = 1044 + 512;

impl Part for C10 {
    type Case = Case;
    fn name(&self) -> String {
        "E1-x25519-zero-dh".into()
    }
    fn rule(&self) -> String {
        "the 14 encodings whose X25519 output is zero for every scalar (checked at run time against R1, recomputed from scratch by R2) x role {recipient key at sender, encapsulated key at receiver, expected sender identity at receiver, sender's own identity key} x the modes in which the role exists x KDF x AEAD x {setup, single-shot} x private-key sets: oracle = reject (EncapError resp. DecapError, no context) iff some DH of RFC Encap/Decap is all-zero, as evaluated by R1 - so the sender's own small-order identity PUBLIC key (never used in a DH) is predicted to be accepted; negatives u = 2..1025, p-2, p+2..p+18, 2^255-1, 2^256-1 and 512 derived public keys with bit-255 twins are never rejected and yield R1's key schedule; non-trivial = every case".into()
    }
    fn bound(&self, cfg: &Cfg) -> String {
        if cfg.tier.thorough() { "14 encodings x 4 roles x modes x 3 KDFs x 4 AEADs x 4 key sets; 1556 negatives x 4 modes".into() } else { "14 encodings x 4 roles x modes x 3 KDFs x 2 AEADs x 2 key sets; 1556 negatives x Base/AuthPsk".into() }
    }
    fn enumerate(&self, cfg: &Cfg) -> Vec<Case> {
        let t = cfg.tier.thorough();
        let mut v = vec![];
        for kdf in KDFS {
            for aead in AEADS {
                if !t && !(aead == Aead::ChaCha20Poly1305 || aead == Aead::ExportOnly) {
                    continue;
                }
                let suite = SuiteId { kem: Kem::X25519, kdf, aead };
                for mode in MODES {
                    for role in [Role::RecipientAtSender, Role::EncAtReceiver, Role::SenderIdAtReceiver, Role::OwnIdAtSender] {
                        if matches!(role, Role::SenderIdAtReceiver | Role::OwnIdAtSender) && !mode.has_auth() {
                            continue;
                        }
                        for enc_idx in 0..14 {
                            for key_set in 0..(if t { 4 } else { 2 }) {
                                v.push(Case::Small { suite, mode, role, enc_idx, key_set });
                            }
                        }
                    }
                }
            }
        }
        for enc_idx in 0..14 {
            for key_set in 0..4 {
                v.push(Case::KemLevel { enc_idx, key_set });
            }
        }
        for idx in 0..SPARSE.len() {
            for mode in MODES {
                v.push(Case::Sparse { suite: SuiteId { kem: Kem::X25519, kdf: Kdf::Sha256, aead: Aead::ChaCha20Poly1305 }, mode, idx });
            }
        }
        let suite = SuiteId { kem: Kem::X25519, kdf: Kdf::Sha256, aead: Aead::ChaCha20Poly1305 };
        for mode in if t { MODES.to_vec() } else { vec![Mode::Base, Mode::AuthPsk] } {
            let mut f = 0;
            while f < N_NEG {
                v.push(Case::Negative { suite, mode, from: f, count: 64.min(N_NEG - f) });
                f += 64;
            }
        }
        v
    }
    fn run(&self, cfg: &Cfg, c: &Case) -> CaseOut {
        let mut out = CaseOut::new();
        out.nontrivial = true;
        let encs = small_order_encodings();
        match c {
            Case::Sparse { suite, mode, idx } => {
                out.outcome = "sparse-dh-result".into();
                let sk = unhex(SPARSE_SK);
                let pk = unhex(SPARSE[*idx].0);
                let want_dh = unhex(SPARSE[*idx].1);
                if Kem::X25519.dh(&sk, &pk) != Some(want_dh.clone()) {
                    out.fail_machinery("R1 does not reproduce the sparse DH witness");
                    return out;
                }
                let ops = suite_ops(*suite);
                let mut k = keys(Kem::X25519, 10_900 + *idx as u64, cfg.seed);
                let info = b"sparse".to_vec();
                // the receiver holds the witness private key and gets the witness public key as enc; in the Auth modes the
                // expected sender key is the witness public key as well (both of the receiver's DH results are sparse)
                k.sk_r = sk.clone();
                k.pk_r = Kem::X25519.pk_of(&sk).unwrap();
                let mut m = mode_spec(*mode, &k, &bytes(Fill::Mix, 32, 11, cfg.seed), &bytes(Fill::Mix, 22, 12, cfg.seed));
                if mode.has_auth() {
                    m.pk_s = pk.clone();
                }
                match (r1_setup_r(*suite, &m, &pk, &sk, &info), ops.setup_receiver(&m, &sk, &pk, &info)) {
                    (Some(rc), Obs::Ok(r)) => {
                        expect_bytes(&mut out, &format!("receiver whose DH result is {}: export", SPARSE[*idx].1), &r.export(b"x", 32), &rc.export(b"x", 32).unwrap());
                    }
                    (Some(_), o) => out.fail(format!("setup_receiver with a key of large prime order whose DH result is {} (not all zero): {} - must not be rejected", SPARSE[*idx].1, o.map(|_| ()).class())),
                    (None, _) => out.fail_machinery("R1 rejects the sparse witness"),
                }
                // the sender authenticates with the witness private key towards the witness public key as recipient
                if mode.has_auth() {
                    let mut ms = mode_spec(*mode, &k, &bytes(Fill::Mix, 32, 11, cfg.seed), &bytes(Fill::Mix, 22, 12, cfg.seed));
                    ms.sk_s = sk.clone();
                    ms.pk_s = k.pk_r.clone();
                    match (r1_setup_s(*suite, &ms, &pk, &info, &k.ikm_e), ops.setup_sender(&ms, &pk, &info, &mut ScriptRng::new(&k.ikm_e))) {
                        (Some((e, sc)), Obs::Ok((enc, s))) => {
                            out.check("sender with a sparse identity DH result: enc equals R1's", enc == e);
                            expect_bytes(&mut out, "sender with a sparse identity DH result: export", &s.export(b"x", 32), &sc.export(b"x", 32).unwrap());
                        }
                        (Some(_), o) => out.fail(format!("setup_sender whose identity DH result is {}: {} - must not be rejected", SPARSE[*idx].1, o.map(|_| ()).class())),
                        (None, _) => out.fail_machinery("R1 rejects the sparse sender witness"),
                    }
                }
            }
            Case::KemLevel { enc_idx, key_set } => {
                out.outcome = "kem-level".into();
                let bad = &encs[*enc_idx];
                let k = keys(Kem::X25519, 10_000 + key_set, cfg.seed);
                // non-vacuity: R1 says the DH is all-zero for this encoding with several scalars
                out.check("R1: DH(sk_r, bad) is all-zero (encoding really is small order)", Kem::X25519.dh(&k.sk_r, bad).is_none() && Kem::X25519.dh(&k.sk_s, bad).is_none());
                let ops = kem_ops(Kem::X25519);
                let mut rng = ScriptRng::new(&k.ikm_e);
                expect_err(&mut out, "encap(pkR = small order)", &ops.encap(bad, None, &mut rng), HpkeError::EncapError);
                let mut rng = ScriptRng::new(&k.ikm_e);
                expect_err(&mut out, "auth encap(pkR = small order)", &ops.encap(bad, Some((&k.sk_s, &k.pk_s)), &mut rng), HpkeError::EncapError);
                expect_err(&mut out, "decap(enc = small order)", &ops.decap(&k.sk_r, None, bad), HpkeError::DecapError);
                expect_err(&mut out, "auth decap(enc = small order)", &ops.decap(&k.sk_r, Some(&k.pk_s), bad), HpkeError::DecapError);
                let (sk_e, _, _) = Kem::X25519.derive_keypair(&k.ikm_e);
                let (_, enc) = Kem::X25519.encap(&k.pk_r, Some(&k.sk_s), &sk_e).unwrap();
                expect_err(&mut out, "auth decap(pkS = small order)", &ops.decap(&k.sk_r, Some(bad), &enc), HpkeError::DecapError);
            }
            Case::Small { suite, mode, role, enc_idx, key_set } => {
                out.outcome = format!("{:?}/{:?}", role, mode);
                let ops = suite_ops(*suite);
                let bad = encs[*enc_idx].clone();
                let k = keys(Kem::X25519, 10_000 + key_set, cfg.seed);
                let info = bytes(Fill::Mix, 9, 10, cfg.seed);
                // odd key sets use the (legal) EMPTY bundle in the PSK modes: the zero check must not hinge on the PSK inputs
                let empty = mode.has_psk() && key_set % 2 == 1;
                let m = if empty { mode_spec(*mode, &k, b"", b"") } else { mode_spec(*mode, &k, &bytes(Fill::Mix, 32, 11, cfg.seed), &bytes(Fill::Mix, 22, 12, cfg.seed)) };
                // every call is made three times in a row with the same objects' bytes: a rejection must not turn into
                // an acceptance (or the other way round) because the same inputs were seen before
                for attempt in 0..3 {
                let what = format!("{} {:?}{} {:?} encoding #{} (attempt {} with the same inputs)", suite.name(), mode, if empty { " with the empty bundle" } else { "" }, role, enc_idx, attempt + 1);
                match role {
                    Role::RecipientAtSender => {
                        let pred = r1_setup_s(*suite, &m, &bad, &info, &k.ikm_e);
                        out.check("R1 predicts rejection", pred.is_none());
                        let mut rng = ScriptRng::new(&k.ikm_e);
                        expect_err(&mut out, &format!("{}: setup_sender", what), &ops.setup_sender(&m, &bad, &info, &mut rng).map(|_| ()), HpkeError::EncapError);
                        let mut rng = ScriptRng::new(&k.ikm_e);
                        if suite.aead.can_seal() {
                            expect_err(&mut out, &format!("{}: single_shot_seal", what), &ops.single_shot_seal(&m, &bad, &info, b"pt", b"aad", &mut rng).map(|_| ()), HpkeError::EncapError);
                            let mut rng = ScriptRng::new(&k.ikm_e);
                            let mut buf = b"pt".to_vec();
                            expect_err(&mut out, &format!("{}: single_shot_seal_in_place_detached", what), &ops.single_shot_seal_ip(&m, &bad, &info, &mut buf, b"aad", &mut rng).map(|_| ()), HpkeError::EncapError);
                            out.check("plaintext buffer untouched when encapsulation fails", buf == b"pt");
                        }
                    }
                    Role::EncAtReceiver => {
                        out.check("R1 predicts rejection", r1_setup_r(*suite, &m, &bad, &k.sk_r, &info).is_none());
                        expect_err(&mut out, &format!("{}: setup_receiver", what), &ops.setup_receiver(&m, &k.sk_r, &bad, &info).map(|_| ()), HpkeError::DecapError);
                        if suite.aead.can_seal() {
                            expect_err(&mut out, &format!("{}: single_shot_open", what), &ops.single_shot_open(&m, &k.sk_r, &bad, &info, &[0u8; 40], b"aad").map(|_| ()), HpkeError::DecapError);
                            let mut buf = vec![0u8; 24];
                            expect_err(&mut out, &format!("{}: single_shot_open_in_place_detached", what), &ops.single_shot_open_ip(&m, &k.sk_r, &bad, &info, &mut buf, b"aad", &[0u8; 16]).map(|_| ()), HpkeError::DecapError);
                            // also with inputs the opening step itself would reject first if it ran first
                            expect_err(&mut out, &format!("{}: single_shot_open (empty ciphertext)", what), &ops.single_shot_open(&m, &k.sk_r, &bad, &info, &[], b"").map(|_| ()), HpkeError::DecapError);
                        }
                    }
                    Role::SenderIdAtReceiver => {
                        // a valid enc from an honest sender; the receiver expects a small-order identity key
                        let (enc, _) = r1_setup_s(*suite, &m, &k.pk_r, &info, &k.ikm_e).unwrap();
                        let mut m2 = m.clone();
                        m2.pk_s = bad.clone();
                        out.check("R1 predicts rejection", r1_setup_r(*suite, &m2, &enc, &k.sk_r, &info).is_none());
                        expect_err(&mut out, &format!("{}: setup_receiver", what), &ops.setup_receiver(&m2, &k.sk_r, &enc, &info).map(|_| ()), HpkeError::DecapError);
                        if suite.aead.can_seal() {
                            expect_err(&mut out, &format!("{}: single_shot_open", what), &ops.single_shot_open(&m2, &k.sk_r, &enc, &info, &[0u8; 40], b"aad").map(|_| ()), HpkeError::DecapError);
                        }
                    }
                    Role::OwnIdAtSender => {
                        // the sender's own public key is only copied into kem_context: no DH uses it
                        let mut m2 = m.clone();
                        m2.pk_s = bad.clone();
                        let pred = r1_setup_s(*suite, &m2, &k.pk_r, &info, &k.ikm_e);
                        out.check("R1 predicts acceptance (no DH involves the sender's own public key)", pred.is_some());
                        let mut rng = ScriptRng::new(&k.ikm_e);
                        match ops.setup_sender(&m2, &k.pk_r, &info, &mut rng) {
                            Obs::Ok((enc, s)) => {
                                let (enc_ref, rctx) = pred.unwrap();
                                out.check("enc equals R1's", enc == enc_ref);
                                expect_bytes(&mut out, "export equals R1's", &s.export(b"x", 32), &rctx.export(b"x", 32).unwrap());
                            }
                            o => out.fail(format!("{}: a key that is in no DH must not be rejected: {}", what, o.map(|_| ()).class())),
                        }
                    }
                }
                }
            }
            Case::Negative { suite, mode, from, count } => {
                out.outcome = format!("negative/{:?}", mode);
                let ops = suite_ops(*suite);
                let k = keys(Kem::X25519, 10_100, cfg.seed);
                let info = b"neg".to_vec();
                let m = mode_spec(*mode, &k, &bytes(Fill::Mix, 32, 11, cfg.seed), &bytes(Fill::Mix, 22, 12, cfg.seed));
                                // the receiver's OWN public key as encapsulated key (an attacker can reflect it): not of small order, so it is
                // not rejected and gives R1's context
                if *from == 0 {
                    match (r1_setup_r(*suite, &m, &k.pk_r, &k.sk_r, &info), ops.setup_receiver(&m, &k.sk_r, &k.pk_r, &info)) {
                        (Some(rc), Obs::Ok(r)) => {
                            expect_bytes(&mut out, "receiver whose enc is its own public key: export", &r.export(b"x", 32), &rc.export(b"x", 32).unwrap());
                        }
                        (Some(_), o) => out.fail(format!("setup_receiver(enc = the receiver's own public key): {} - a key that is not of small order must not be rejected", o.map(|_| ()).class())),
                        (None, _) => out.fail_machinery("R1 rejects enc = pkR"),
                    }
                    let mut rng = ScriptRng::new(&k.ikm_e);
                    let own = ModeSpec { pk_s: k.pk_r.clone(), sk_s: k.sk_r.clone(), ..m.clone() };
                    if mode.has_auth() {
                        match (r1_setup_s(*suite, &own, &k.pk_r, &info, &k.ikm_e), ops.setup_sender(&own, &k.pk_r, &info, &mut rng)) {
                            (Some((e, _)), Obs::Ok((enc, _))) => {
                                out.check("sender sealing to itself: enc equals R1's", enc == e);
                            }
                            (Some(_), o) => out.fail(format!("setup_sender(identity = recipient): {}", o.map(|_| ()).class())),
                            (None, _) => out.fail_machinery("R1 rejects a self-addressed sender"),
                        }
                    }
                }
                for i in *from..*from + *count {
                    let u = negative_u(i);
                    // as recipient key at the sender
                    let pred = r1_setup_s(*suite, &m, &u, &info, &k.ikm_e);
                    if pred.is_none() {
                        out.fail_machinery(format!("R1 rejects negative #{} - the negative list is wrong", i));
                        continue;
                    }
                    let (enc_ref, rctx) = pred.unwrap();
                    let mut rng = ScriptRng::new(&k.ikm_e);
                    out.transitions += 1;
                    match ops.setup_sender(&m, &u, &info, &mut rng) {
                        Obs::Ok((enc, s)) => {
                            if enc != enc_ref || s.export(b"n", 16) != Obs::Ok(rctx.export(b"n", 16).unwrap()) {
                                out.fail(format!("negative #{} (u={}) as recipient key: context differs from R1", i, crate::obs::hex(&u)));
                            }
                        }
                        o => out.fail(format!("negative #{} (u={}) rejected by setup_sender: {}", i, crate::obs::hex(&u), o.map(|_| ()).class())),
                    }
                    // as encapsulated key at the receiver
                    let predr = r1_setup_r(*suite, &m, &u, &k.sk_r, &info);
                    out.transitions += 1;
                    match (ops.setup_receiver(&m, &k.sk_r, &u, &info), predr) {
                        (Obs::Ok(r), Some(rc)) => {
                            if r.export(b"n", 16) != Obs::Ok(rc.export(b"n", 16).unwrap()) {
                                out.fail(format!("negative #{} as enc: receiver context differs from R1", i));
                            }
                        }
                        (o, p) => out.fail(format!("negative #{} (u={}) as enc: setup_receiver {} (R1 accepts: {})", i, crate::obs::hex(&u), o.map(|_| ()).class(), p.is_some())),
                    }
                    // as expected sender identity at the receiver
                    if mode.has_auth() {
                        let mut m2 = m.clone();
                        m2.pk_s = u.clone();
                        let predr = r1_setup_r(*suite, &m2, &enc_ref, &k.sk_r, &info);
                        out.transitions += 1;
                        match (ops.setup_receiver(&m2, &k.sk_r, &enc_ref, &info), predr) {
                            (Obs::Ok(r), Some(rc)) => {
                                if r.export(b"n", 16) != Obs::Ok(rc.export(b"n", 16).unwrap()) {
                                    out.fail(format!("negative #{} as pkS: receiver context differs from R1", i));
                                }
                            }
                            (o, p) => out.fail(format!("negative #{} as pkS: setup_receiver {} (R1 accepts: {})", i, o.map(|_| ()).class(), p.is_some())),
                        }
                    }
                }
            }
        }
        out
    }
}
