//! C03 - DHKEM conformance: DeriveKeyPair, GenerateKeyPair, Encap/Decap, AuthEncap/AuthDecap vs R1
//! (and, through the transcript, vs the independent Python reference R2)

use super::*;
use crate::engine::{Cfg, Part};
use crate::obs::{hex, unhex};
use crate::refmodel::{Kem, KEMS};
use crate::rng::{bytes, Fill, ScriptRng, FILLS_ALL, FILLS_QUICK};
use crate::suites::kem_ops;
use serde::{Deserialize, Serialize};

#[derive(Clone, Debug, Serialize, Deserialize)]
pub enum Case {
    Derive { kem: Kem, ikm_len: usize, fill: Fill, tag: u64 },
    DeriveHex { kem: Kem, ikm: String },
    /// all big-endian ikm values start..start+count of `width` bytes
    DeriveRange { kem: Kem, width: usize, start: u32, count: u32 },
    /// every ikm LENGTH from..=to; ikm of neighbouring lengths share a prefix (a dropped or duplicated tail byte shows)
    DeriveLens { kem: Kem, from: usize, to: usize },
    Gen { kem: Kem, fill: Fill, tag: u64, extra: usize },
    /// gen_keypair / encap with an RNG that hands out exactly these bytes
    GenHex { kem: Kem, script: String },
    Encap { kem: Kem, auth: bool, tag: u64, #[serde(default)] rel: u8 },
    /// Decap / AuthDecap / AuthEncap with structurally special but VALID keys: private keys 1, 2, n-1, n-2,
    /// public keys G, 2G, -G and the point with x = 0 - in particular pairs whose DH result has x = 0 or is +-G.
    /// RFC 9180 defines an ordinary shared secret for all of them.
    Special { kem: Kem, sk_idx: usize, pk_idx: usize, auth: bool },
    /// X25519 Decap / AuthDecap of a NON-canonical encapsulated key (u + p for u < 19, and / or bit 255 set): RFC 7748 accepts
    /// it, the DH uses the point, and kem_context contains the bytes exactly as they arrived
    NonCanonEnc { idx: usize, auth: bool },
}

pub struct C03 {
    pub transcript: Option<std::sync::Mutex<Vec<String>>>,
}

pub const IKM_LENS: [usize; 11] = [0, 1, 31, 32, 33, 48, 64, 66, 67, 128, 255];
/// Appendix B: first P-256 candidate >= n
pub const P256_RETRY_WITNESS: &str = "00000000a432f1f9";
/// an Nsk-sized (32-byte) ikm with the same property - what a caller's RNG may hand to GenerateKeyPair
/// (found by an independent sub-agent's search; R1 and R2 confirm on every run that the first candidate is rejected)
pub const P256_RETRY_WITNESS_32: &str = "9172dfb805e6432c896af750000000000e533661d5b613fc593a8760cdae0b94";

fn derive_check(out: &mut CaseOut, kem: Kem, ikm: &[u8], tr: Option<&std::sync::Mutex<Vec<String>>>) {
    let ops = kem_ops(kem);
    let (sk_ref, pk_ref, rejected) = kem.derive_keypair(ikm);
    if rejected > 0 {
        out.notes.push(format!("{}: DeriveKeyPair rejection branch executed ({} candidates rejected)", kem.name(), rejected));
    }
    out.transitions += 1;
    out.nontrivial = true;
    match ops.derive_keypair(ikm) {
        Obs::Ok((sk, pk)) => {
            if kem.clamp_sk(&sk) != kem.clamp_sk(&sk_ref) {
                out.fail(format!("{} derive_keypair(ikm={}): sk {} want {}", kem.name(), crate::obs::hx(ikm), hex(&sk), hex(&sk_ref)));
            }
            if pk != pk_ref {
                out.fail(format!("{} derive_keypair(ikm={}): pk {} want {}", kem.name(), crate::obs::hx(ikm), hex(&pk), hex(&pk_ref)));
            }
            // the public key is the public key of the private key
            let o = ops.sk_to_pk(&sk);
            expect_bytes(out, &format!("{} sk_to_pk(derived sk)", kem.name()), &o, &pk_ref);
            if let Some(t) = tr {
                t.lock().unwrap().push(
                    serde_json::json!({"kind":"derive","kem":kem.id(),"ikm":hex(ikm),"impl_sk":hex(&sk),"impl_pk":hex(&pk)}).to_string(),
                );
            }
        }
        o => out.fail(format!("{} derive_keypair(ikm={}): {}", kem.name(), crate::obs::hx(ikm), o.class())),
    }
}

impl Part for C03 {
    type Case = Case;
    fn name(&self) -> String {
        "E1-dhkem-R1".into()
    }
    fn rule(&self) -> String {
        "4 KEMs x ikm shapes x fills for derive_keypair (private key - X25519 after clamping both sides - and public key bytes, sk_to_pk(sk)=pk); gen_keypair(script) = DeriveKeyPair(first Nsk bytes drawn); 4 KEMs x {unauth, auth} x key triples for encap (scripted ephemeral) and decap in both directions: shared secret and enc bytes vs R1; non-trivial = a key or secret was compared".into()
    }
    fn bound(&self, cfg: &Cfg) -> String {
        if cfg.tier.thorough() {
            "11 ikm lengths x 5 fills + P-256 rejection-branch witness; all 256 one-byte ikm for 4 KEMs, all 65536 two-byte ikm for X25519 and P-256; 12 key triples x 2 auth modes x 4 KEMs".into()
        } else {
            "11 ikm lengths x 2 fills + every ikm length 0..400 (X25519, P-256) + P-256 rejection-branch witness; all 256 one-byte ikm for X25519 and P-256; 6 key triples x 2 auth modes x 4 KEMs".into()
        }
    }
    fn enumerate(&self, cfg: &Cfg) -> Vec<Case> {
        let t = cfg.tier.thorough();
        let mut v = vec![];
        let mut tag = 3000u64;
        for kem in KEMS {
            let fills: &[Fill] = if t { &FILLS_ALL } else { &FILLS_QUICK };
            for &l in &IKM_LENS {
                for &fill in fills {
                    tag += 1;
                    v.push(Case::Derive { kem, ikm_len: l, fill, tag });
                }
            }
            v.push(Case::Derive { kem, ikm_len: kem.nsk(), fill: Fill::Mix, tag: tag + 500 });
            for extra in [0usize, 1, 40] {
                for &fill in fills {
                    tag += 1;
                    v.push(Case::Gen { kem, fill, tag, extra });
                }
            }
            for i in 0..(if t { 12 } else { 6 }) {
                for auth in [false, true] {
                    v.push(Case::Encap { kem, auth, tag: 7000 + i, rel: 0 });
                    if i < 2 {
                        // relations between the three key pairs of an encapsulation (see the Encap arm of run)
                        for rel in 1..=4u8 {
                            v.push(Case::Encap { kem, auth, tag: 7100 + i, rel });
                        }
                    }
                }
            }
            if t || kem == Kem::X25519 || kem == Kem::P256 {
                v.push(Case::DeriveRange { kem, width: 1, start: 0, count: 256 });
            }
            if t && (kem == Kem::X25519 || kem == Kem::P256) {
                for chunk in 0..64u32 {
                    v.push(Case::DeriveRange { kem, width: 2, start: chunk * 1024, count: 1024 });
                }
            }
        }
        for kem in [Kem::P256, Kem::P384, Kem::P521] {
            for sk_idx in 0..4 {
                for pk_idx in 0..5 {
                    for auth in [false, true] {
                        v.push(Case::Special { kem, sk_idx, pk_idx, auth });
                    }
                }
            }
        }
        for kem in KEMS {
            let n = match kem {
                Kem::X25519 | Kem::P256 => if t { 1100 } else { 400 },
                _ => if t { 400 } else { 0 },
            };
            let mut f = 0;
            while f < n {
                v.push(Case::DeriveLens { kem, from: f, to: (f + 49).min(n) });
                f += 50;
            }
        }
        for idx in 0..8 {
            for auth in [false, true] {
                v.push(Case::NonCanonEnc { idx, auth });
            }
        }
        v.push(Case::DeriveHex { kem: Kem::P256, ikm: P256_RETRY_WITNESS.into() });
        v.push(Case::DeriveHex { kem: Kem::P256, ikm: P256_RETRY_WITNESS_32.into() });
        v.push(Case::GenHex { kem: Kem::P256, script: P256_RETRY_WITNESS_32.into() });
        // RFC 9180 Appendix A ikm values (the derived keys are pinned by the R1 self-test / R2 anchors)
        v.push(Case::DeriveHex { kem: Kem::X25519, ikm: "7268600d403fce431561aef583ee1613527cff655c1343f29812e66706df3234".into() });
        v.push(Case::DeriveHex { kem: Kem::P256, ikm: "4270e54ffd08d79d5928020af4686d8f6b7d35dbe470265f1f5aa22816ce860e".into() });
        v.push(Case::DeriveHex { kem: Kem::P521, ikm: "7f06ab8215105fc46aceeb2e3dc5028b44364f960426eb0d8e4026c2f8b5d7e7a986688f1591abf5ab753c357a5d6f0440414b4ed4ede71317772ac98d9239f70904".into() });
        v
    }
    fn run(&self, cfg: &Cfg, c: &Case) -> CaseOut {
        let mut out = CaseOut::new();
        let tr = self.transcript.as_ref();
        match c {
            Case::Derive { kem, ikm_len, fill, tag } => {
                out.outcome = format!("derive/{}", kem.name());
                let ikm = bytes(*fill, *ikm_len, *tag, cfg.seed);
                derive_check(&mut out, *kem, &ikm, tr);
            }
            Case::DeriveHex { kem, ikm } => {
                out.outcome = format!("derive-witness/{}", kem.name());
                derive_check(&mut out, *kem, &unhex(ikm), tr);
                if ikm == P256_RETRY_WITNESS || ikm == P256_RETRY_WITNESS_32 {
                    let (_, _, rej) = kem.derive_keypair(&unhex(ikm));
                    out.check("P-256 witness executes the rejection branch in R1", rej == 1);
                }
            }
            Case::DeriveRange { kem, width, start, count } => {
                out.outcome = format!("derive-range{}/{}", width, kem.name());
                for x in *start..*start + *count {
                    let ikm: Vec<u8> = if *width == 1 { vec![x as u8] } else { vec![(x >> 8) as u8, x as u8] };
                    // keep the R2 transcript small: only every 97th value of a range goes to R2
                    derive_check(&mut out, *kem, &ikm, if x % 97 == 0 { tr } else { None });
                }
            }
            Case::DeriveLens { kem, from, to } => {
                out.outcome = format!("derive-lengths/{}", kem.name());
                let long = bytes(Fill::Mix, *to + 1, 3777, cfg.seed);
                for l in *from..=*to {
                    derive_check(&mut out, *kem, &long[..l], if l % 41 == 0 { tr } else { None });
                    if l > 0 {
                        // ... immediately followed by an ikm of the same length that differs in its LAST byte only, and by one
                        // that differs in its first byte only (consecutive derivations must not be confused with one another)
                        let mut late = long[..l].to_vec();
                        late[l - 1] ^= 0x5a;
                        derive_check(&mut out, *kem, &late, None);
                        let mut early = long[..l].to_vec();
                        early[0] ^= 0x5a;
                        derive_check(&mut out, *kem, &early, None);
                    }
                }
            }
            Case::GenHex { kem, script } => {
                out.outcome = format!("gen-witness/{}", kem.name());
                let ops = kem_ops(*kem);
                let script = unhex(script);
                let (sk_ref, pk_ref, rej) = kem.derive_keypair(&script[..kem.nsk()]);
                if rej == 0 {
                    out.fail_machinery("the 32-byte witness does not exercise the rejection branch in R1");
                }
                let mut rng = ScriptRng::new(&script);
                out.transitions += 1;
                out.nontrivial = true;
                match ops.gen_keypair(&mut rng) {
                    Obs::Ok((sk, pk)) => {
                        if sk != sk_ref || pk != pk_ref {
                            out.fail(format!("{} gen_keypair with RNG output {}: pk {} want {} (DeriveKeyPair must move on to the next candidate)", kem.name(), crate::obs::hx(&script), hex(&pk), hex(&pk_ref)));
                        }
                    }
                    o => out.fail(format!("gen_keypair: {}", o.class())),
                }
                // and as the ephemeral key of an encapsulation
                let k = keys(*kem, 3950, cfg.seed);
                let mut rng = ScriptRng::new(&script);
                let want = kem.encap(&k.pk_r, None, &sk_ref);
                out.transitions += 1;
                match (ops.encap(&k.pk_r, None, &mut rng), want) {
                    (Obs::Ok((ss, enc)), Some((wss, wenc))) if ss == wss && enc == wenc => {}
                    (o, _) => out.fail(format!("{} encap with the witness as RNG output: {} / differs from R1", kem.name(), o.map(|_| ()).class())),
                }
            }
            Case::Gen { kem, fill, tag, extra } => {
                out.outcome = format!("gen/{}", kem.name());
                let ops = kem_ops(*kem);
                let script = bytes(*fill, kem.nsk() + extra, *tag, cfg.seed);
                let mut rng = ScriptRng::new(&script);
                let got = ops.gen_keypair(&mut rng);
                out.transitions += 1;
                out.nontrivial = true;
                let drawn = rng.drawn_bytes();
                out.notes.push(format!("gen_keypair draw pattern {:?}", rng.log));
                if drawn.len() < kem.nsk() {
                    out.fail(format!("gen_keypair drew only {} bytes (< Nsk)", drawn.len()));
                } else {
                    let (sk_ref, pk_ref, _) = kem.derive_keypair(&drawn[..kem.nsk()]);
                    match got {
                        Obs::Ok((sk, pk)) => {
                            if kem.clamp_sk(&sk) != kem.clamp_sk(&sk_ref) || pk != pk_ref {
                                out.fail(format!("{} gen_keypair != DeriveKeyPair(first Nsk bytes drawn): pk {} want {}", kem.name(), hex(&pk), hex(&pk_ref)));
                            }
                        }
                        o => out.fail(format!("gen_keypair: {}", o.class())),
                    }
                }
            }
            Case::NonCanonEnc { idx, auth } => {
                out.outcome = "x25519-non-canonical-enc".into();
                let kem = Kem::X25519;
                let ops = kem_ops(kem);
                let k = keys(kem, 3950 + *idx as u64, cfg.seed);
                // p = 2^255 - 19 little-endian: ed ff .. ff 7f ; u + p for u = 9, 2, 18 ; and canonical values with bit 255 set
                let mut enc = [0xffu8; 32];
                enc[31] = 0x7f;
                match idx {
                    0 => enc[0] = 0xed + 9,
                    1 => enc[0] = 0xed + 2,
                    2 => enc[0] = 0xed + 18,
                    3 => {
                        enc[0] = 0xed + 9;
                        enc[31] = 0xff;
                    }
                    4 => {
                        enc = [0u8; 32];
                        enc[0] = 9;
                        enc[31] = 0x80;
                    }
                    _ => {
                        // an honest encapsulated key with bit 255 set
                        let (sk_e, _, _) = kem.derive_keypair(&k.ikm_e);
                        enc.copy_from_slice(&kem.pk_of(&sk_e).unwrap());
                        enc[31] |= 0x80;
                        enc[0] ^= (*idx as u8) << 1;
                    }
                }
                let want = kem.decap(&enc, &k.sk_r, if *auth { Some(&k.pk_s) } else { None });
                let got = ops.decap(&k.sk_r, if *auth { Some(&k.pk_s) } else { None }, &enc);
                out.transitions += 1;
                out.nontrivial = true;
                match (&got, &want) {
                    (Obs::Ok(g), Some(w)) if g == w => {}
                    (Obs::Err(_), None) => {}
                    (g, w) => out.fail(format!("X25519 decap(enc = {} (non-canonical), auth {}): got {} want {}", hex(&enc), auth, g.class(), w.as_ref().map(|x| hex(x)).unwrap_or("failure".into()))),
                }
            }
            Case::Special { kem, sk_idx, pk_idx, auth } => {
                out.outcome = format!("special-keys/{}", kem.name());
                let ops = kem_ops(*kem);
                let n_minus = |d: u64| -> Vec<u8> {
                    // n - d = -(d) mod n : negate the scalar d
                    let mut d_bytes = vec![0u8; kem.nsk()];
                    let l = d_bytes.len();
                    d_bytes[l - 8..].copy_from_slice(&d.to_be_bytes());
                    kem.neg_sk(&d_bytes).unwrap()
                };
                let small = |d: u64| -> Vec<u8> {
                    let mut b = vec![0u8; kem.nsk()];
                    let l = b.len();
                    b[l - 8..].copy_from_slice(&d.to_be_bytes());
                    b
                };
                let sk = [small(1), small(2), n_minus(1), n_minus(2)][*sk_idx].clone();
                let g = kem.small_multiple(1).unwrap();
                let pk = match *pk_idx {
                    0 => g.clone(),
                    1 => kem.small_multiple(2).unwrap(),
                    2 => kem.neg_pk(&g).unwrap(),
                    3 => match kem.point_x_zero() {
                        Some(p) => p,
                        None => return out,
                    },
                    _ => kem.neg_pk(&kem.point_x_zero().unwrap_or_else(|| g.clone())).unwrap(),
                };
                let k = keys(*kem, 3900, cfg.seed);
                // receiver holds the special private key, the special public key arrives as enc (and as pkS)
                let want = kem.decap(&pk, &sk, if *auth { Some(&pk) } else { None });
                let got = ops.decap(&sk, if *auth { Some(&pk) } else { None }, &pk);
                out.transitions += 1;
                out.nontrivial = true;
                match (&got, &want) {
                    (Obs::Ok(g), Some(w)) if g == w => {}
                    (g, w) => out.fail(format!("{} decap(sk #{}, enc = special point #{}, auth {}): got {} want {}", kem.name(), sk_idx, pk_idx, auth, g.class(), if w.is_some() { "Ok(RFC shared secret)" } else { "failure" })),
                }
                // sender: recipient key is the special point, identity key is the special private key
                let (sk_e, _, _) = kem.derive_keypair(&k.ikm_e);
                let pk_of_sk = kem.pk_of(&sk).unwrap();
                let want = kem.encap(&pk, if *auth { Some(&sk) } else { None }, &sk_e);
                let mut rng = ScriptRng::new(&k.ikm_e);
                let got = ops.encap(&pk, if *auth { Some((&sk, &pk_of_sk)) } else { None }, &mut rng);
                out.transitions += 1;
                match (&got, &want) {
                    (Obs::Ok(g), Some(w)) if g.0 == w.0 && g.1 == w.1 => {}
                    (g, w) => out.fail(format!("{} encap(pkR = special point #{}, skS #{}, auth {}): got {} want {}", kem.name(), pk_idx, sk_idx, auth, g.as_ref().map(|_| ()).class(), if w.is_some() { "Ok(RFC shared secret, enc)" } else { "failure" })),
                }
            }
            Case::Encap { kem, auth, tag, rel } => {
                out.outcome = format!("encap{}{}/{}", if *auth { "-auth" } else { "" }, if *rel > 0 { "-related-keys" } else { "" }, kem.name());
                let ops = kem_ops(*kem);
                let mut k = keys(*kem, *tag, cfg.seed);
                // the recipient, sender-identity and ephemeral key pairs are independent in the RFC; nothing may key on two of
                // them being the same: 1 identity = recipient (a party sealing to itself), 2 ephemeral = recipient (the RNG
                // hands out the bytes the recipient key was derived from: enc = pkR), 3 ephemeral = identity, 4 all three
                let ikm_r = bytes(Fill::Mix, kem.nsk(), tag.wrapping_mul(3) + 1, cfg.seed);
                let ikm_s = bytes(Fill::Mix, kem.nsk(), tag.wrapping_mul(3) + 2, cfg.seed);
                match rel {
                    1 => {
                        k.sk_s = k.sk_r.clone();
                        k.pk_s = k.pk_r.clone();
                    }
                    2 => k.ikm_e = ikm_r.clone(),
                    3 => k.ikm_e = ikm_s.clone(),
                    4 => {
                        k.sk_s = k.sk_r.clone();
                        k.pk_s = k.pk_r.clone();
                        k.ikm_e = ikm_r.clone();
                    }
                    // (non-canonical X25519 encodings of pkR / pkS are NOT a case here: RFC 9180 Decap serializes pk(skR) and
                    // AuthEncap pk(skS), so a party holding a non-canonical encoding of the peer's key does not interoperate by
                    // the RFC's own definition; C01 covers what the crate does when both sides hold the same bytes)
                    _ => {}
                }
                let k = k;
                let (sk_e, _, _) = kem.derive_keypair(&k.ikm_e);
                let (ss_ref, enc_ref) = match kem.encap(&k.pk_r, if *auth { Some(&k.sk_s) } else { None }, &sk_e) {
                    Some(x) => x,
                    None => {
                        out.fail_machinery("R1 encap failed on valid keys (reference bug)");
                        return out;
                    }
                };
                let dec_ref = kem.decap(&enc_ref, &k.sk_r, if *auth { Some(&k.pk_s) } else { None });
                out.check("R1 encap/decap agree (reference sanity)", dec_ref.as_ref() == Some(&ss_ref));
                let mut rng = ScriptRng::new(&k.ikm_e);
                let got = ops.encap(&k.pk_r, if *auth { Some((&k.sk_s, &k.pk_s)) } else { None }, &mut rng);
                out.transitions += 1;
                out.nontrivial = true;
                match &got {
                    Obs::Ok((ss, enc)) => {
                        if *ss != ss_ref {
                            out.fail(format!("{} encap shared secret {} want {}", kem.name(), hex(ss), hex(&ss_ref)));
                        }
                        if *enc != enc_ref {
                            out.fail(format!("{} encap enc {} want {}", kem.name(), hex(enc), hex(&enc_ref)));
                        }
                    }
                    o => out.fail(format!("encap: {}", o.class())),
                }
                let d = ops.decap(&k.sk_r, if *auth { Some(&k.pk_s) } else { None }, &enc_ref);
                expect_bytes(&mut out, &format!("{} decap(R1 enc)", kem.name()), &d, &ss_ref);
                // a decap with / without the identity key must not give the same secret (auth is bound)
                let d2 = ops.decap(&k.sk_r, if *auth { None } else { Some(&k.pk_s) }, &enc_ref);
                out.transitions += 1;
                if let Obs::Ok(x) = &d2 {
                    if *x == ss_ref {
                        out.fail("decap in the other auth mode returns the same shared secret");
                    }
                }
                if let Some(t) = tr {
                    t.lock().unwrap().push(
                        serde_json::json!({"kind":"encap","kem":kem.id(),"auth":auth,"sk_r":hex(&k.sk_r),"pk_r":hex(&k.pk_r),"sk_s":hex(&k.sk_s),"pk_s":hex(&k.pk_s),"ikm_e":hex(&k.ikm_e),
                            "impl_ss": got.clone().ok().map(|x| hex(&x.0)), "impl_enc": got.clone().ok().map(|x| hex(&x.1)), "impl_decap": d.clone().ok().map(|x| hex(&x))}).to_string(),
                    );
                }
            }
        }
        out
    }
}
