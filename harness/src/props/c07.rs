//! C07 - context binding: any single-component mismatch between the receiver's and the sender's
//! setup breaks the session (no ciphertext opens, every exported secret differs).
//! C08 (sender authentication) reuses the oracle from the sender's side.

use super::*;
use crate::engine::{Cfg, Part};
use crate::refmodel::{Aead, Kdf, Kem, Mode, SuiteId, AEADS, KDFS, MODES};
use crate::rng::{bytes, Fill, ScriptRng};
use crate::suites::{all_suites, suite_ops, ModeSpec};
use hpke::HpkeError;
use serde::{Deserialize, Serialize};

#[derive(Clone, Debug, Serialize, Deserialize)]
pub struct Case {
    pub suite: SuiteId,
    pub mode: Mode,
    pub info_len: usize,
    pub psk_len: usize,
    pub psk_id_len: usize,
    /// bit-flip stride: 1 = every bit
    pub stride: usize,
    pub tag: u64,
    /// > 0: length sweep - for EVERY length 1..=len_sweep of info (mode Base), psk_id and psk (mode Psk) a baseline
    /// session with a string of that length, and a receiver whose string differs in the LAST byte only
    #[serde(default)]
    pub len_sweep: usize,
}

pub struct C07;

/// What the sender of a session produced: ciphertexts with their aads, and exported values
pub struct Produced {
    pub cts: Vec<(Vec<u8>, Vec<u8>)>,
    pub exports: Vec<(Vec<u8>, usize, Vec<u8>)>,
    /// (ciphertext, aad) sealed at the LAST sequence number 2^64-1 (guard-on builds only)
    pub last: Option<(Vec<u8>, Vec<u8>)>,
    /// (plaintext, ciphertext || tag, aad) produced by single_shot_seal and by single_shot_seal_in_place_detached with
    /// the same randomness (so their encapsulated key is the session's)
    pub single_shot: Vec<(Vec<u8>, Vec<u8>, Vec<u8>)>,
}

pub fn export_probes(seed: u64) -> Vec<(Vec<u8>, usize)> {
    // lengths >= 16 only: a short export may coincide by chance (1 in 256 for one byte)
    vec![(vec![], 32), (vec![], 16), (b"ctx".to_vec(), 32), (b"ctx".to_vec(), 65), (bytes(Fill::Mix, 70, 5, seed), 16), (bytes(Fill::Mix, 70, 5, seed), 32)]
}

/// Runs the implementation's sender and records what it produced
pub fn produce(suite: SuiteId, m: &ModeSpec, pk_r: &[u8], info: &[u8], ikm_e: &[u8], seed: u64) -> Result<(Vec<u8>, Produced), String> {
    let ops = suite_ops(suite);
    let mut rng = ScriptRng::new(ikm_e);
    let (enc, mut s) = ops.setup_sender(m, pk_r, info, &mut rng).need("sender setup")?;
    let mut cts = vec![];
    if suite.aead.can_seal() {
        for i in 0..3u8 {
            let aad = vec![i; i as usize];
            let pt = bytes(Fill::Mix, [5usize, 0, 17][i as usize], 70 + i as u64, seed);
            cts.push((s.seal(&pt, &aad).need("seal")?, aad));
        }
    }
    let mut exports = vec![];
    for (c, l) in export_probes(seed) {
        exports.push((c.clone(), l, s.export(&c, l).need("export")?));
    }
    let mut last = None;
    if crate::suites::HOOKS && suite.aead.can_seal() {
        s.set_seq(u64::MAX);
        last = Some((s.seal(b"the last message of the session", b"last").need("seal at the last sequence number")?, b"last".to_vec()));
    }
    let mut single_shot = vec![];
    if suite.aead.can_seal() {
        let (pt, aad) = (b"single-shot message".to_vec(), b"ss-aad".to_vec());
        if let Obs::Ok((e, ct)) = ops.single_shot_seal(m, pk_r, info, &pt, &aad, &mut ScriptRng::new(ikm_e)) {
            if e == enc {
                single_shot.push((pt.clone(), ct, aad.clone()));
            }
        }
        let mut b = pt.clone();
        if let Obs::Ok((e, t)) = ops.single_shot_seal_ip(m, pk_r, info, &mut b, &aad, &mut ScriptRng::new(ikm_e)) {
            if e == enc {
                single_shot.push((pt.clone(), [b, t].concat(), aad.clone()));
            }
        }
    }
    Ok((enc, Produced { cts, exports, last, single_shot }))
}

/// The oracle: the receiver described by (suite_r, m_r, sk_r, enc, info) must share nothing with
/// the sender that produced `p`. Returns the outcome class.
pub fn must_not_share(out: &mut CaseOut, what: &str, suite_r: SuiteId, m_r: &ModeSpec, sk_r: &[u8], enc: &[u8], info: &[u8], p: &Produced) -> &'static str {
    let ops = suite_ops(suite_r);
    out.transitions += 1;
    out.nontrivial = true;
    let mut r = match ops.setup_receiver(m_r, sk_r, enc, info) {
        Obs::Ok(r) => r,
        Obs::Err(_) | Obs::Pre(_) => return "setup-fails",
        Obs::Panic(s) => {
            out.fail(format!("{}: receiver setup panicked: {}", what, s));
            return "panic";
        }
    };
    if suite_r.aead.can_seal() {
        for (i, (ct, aad)) in p.cts.iter().enumerate() {
            out.transitions += 1;
            match r.open(ct, aad) {
                Obs::Err(HpkeError::OpenError) => {}
                o => {
                    out.fail(format!("{}: sender's ciphertext #{} -> {} (want Err(OpenError)): the contexts share key material", what, i, o.class()));
                    // keep going: also report the exports
                }
            }
        }
    }
    if suite_r.aead.can_seal() {
        // the single-shot forms are setups of their own: they must refuse the sender's single-shot messages just the same
        let nt = suite_r.aead.nt();
        for (i, (_, ct, aad)) in p.single_shot.iter().enumerate() {
            out.transitions += 2;
            if let Obs::Ok(_) = ops.single_shot_open(m_r, sk_r, enc, info, ct, aad) {
                out.fail(format!("{}: single_shot_open accepts the sender's single-shot message #{}", what, i));
            }
            if ct.len() >= nt {
                let mut b = ct[..ct.len() - nt].to_vec();
                if let Obs::Ok(()) = ops.single_shot_open_ip(m_r, sk_r, enc, info, &mut b, aad, &ct[ct.len() - nt..]) {
                    out.fail(format!("{}: single_shot_open_in_place_detached accepts the sender's single-shot message #{}", what, i));
                }
            }
        }
    }
    if let (true, Some((ct, aad))) = (suite_r.aead.can_seal() && crate::suites::HOOKS, &p.last) {
        // ... and at the other end of the sequence space
        r.set_seq(u64::MAX);
        out.transitions += 1;
        match r.open(ct, aad) {
            Obs::Err(HpkeError::OpenError) => {}
            o => out.fail(format!("{}: sender's ciphertext at sequence number 2^64-1 -> {} (want Err(OpenError))", what, o.class())),
        }
    }
    for (c, l, v) in &p.exports {
        out.transitions += 1;
        match r.export(c, *l) {
            Obs::Ok(x) => {
                if x == *v {
                    out.fail(format!("{}: exported secret (|ctx|={}, L={}) equals the sender's", what, c.len(), l));
                    break;
                }
            }
            o => out.fail(format!("{}: export failed: {}", what, o.class())),
        }
    }
    "rejects"
}

/// positive control: the matching receiver opens everything and exports the same
pub fn must_share(out: &mut CaseOut, what: &str, suite: SuiteId, m_r: &ModeSpec, sk_r: &[u8], enc: &[u8], info: &[u8], p: &Produced) -> bool {
    let ops = suite_ops(suite);
    out.transitions += 1;
    let mut r = match ops.setup_receiver(m_r, sk_r, enc, info).need("control receiver") {
        Ok(r) => r,
        Err(e) => {
            out.fail(format!("{}: non-vacuity control failed: {}", what, e));
            return false;
        }
    };
    let mut ok = true;
    for (ct, aad) in &p.cts {
        ok &= r.open(ct, aad).is_ok();
    }
    for (c, l, v) in &p.exports {
        ok &= r.export(c, *l) == Obs::Ok(v.clone());
    }
    if suite.aead.can_seal() {
        let nt = suite.aead.nt();
        ok &= p.single_shot.len() == 2;
        for (pt, ct, aad) in &p.single_shot {
            ok &= ops.single_shot_open(m_r, sk_r, enc, info, ct, aad) == Obs::Ok(pt.clone());
            let mut b = ct[..ct.len() - nt].to_vec();
            ok &= ops.single_shot_open_ip(m_r, sk_r, enc, info, &mut b, aad, &ct[ct.len() - nt..]) == Obs::Ok(()) && b == *pt;
        }
    }
    if !ok {
        out.fail(format!("{}: non-vacuity control failed: the MATCHING receiver does not open/export like the sender", what));
    }
    ok
}

fn flip(b: &[u8], bit: usize) -> Vec<u8> {
    let mut v = b.to_vec();
    v[bit / 8] ^= 1 << (bit % 8);
    v
}

impl Part for C07 {
    type Case = Case;
    fn name(&self) -> String {
        "E1-context-binding".into()
    }
    fn rule(&self) -> String {
        "baseline (suite x mode x info shape x psk shape) x EVERY single-component perturbation of the receiver's setup: each bit of info / psk / psk_id, append 00, drop first/last byte, empty<->non-empty, boundary shifts moving a byte between adjacent fields (info|psk_id, psk|psk_id), every other mode with the same PSK data and keys (incl. Base<->Psk(empty bundle)), every other KDF, every other AEAD (AES-256-GCM vs ChaCha20Poly1305 share Nk and Nn), another recipient key pair, another valid enc, and for X25519 every bit of enc; oracle: receiver setup fails, or every sender ciphertext is rejected with OpenError AND every exported value differs; for every length 1..160 of info, psk_id and psk a receiver whose string differs in the last byte only; non-vacuity: the unperturbed receiver works; a case = one baseline with all its perturbations".into()
    }
    fn bound(&self, cfg: &Cfg) -> String {
        if cfg.tier.thorough() {
            "48 suites x 4 modes x 2 (info, psk, psk_id) shapes, every bit of every field for all KEMs".into()
        } else {
            "12 (KEM,KDF) pairs x {AES-256-GCM, ChaCha20Poly1305, export-only for X25519} x 4 modes x 1 shape; every bit for X25519/P-256, every 8th+boundary bits for P-384/P-521".into()
        }
    }
    fn enumerate(&self, cfg: &Cfg) -> Vec<Case> {
        let t = cfg.tier.thorough();
        let mut v = vec![];
        let mut tag = 7000;
        for suite in all_suites() {
            if !t {
                let keep = match suite.aead {
                    Aead::Aes256Gcm | Aead::ChaCha20Poly1305 => true,
                    Aead::ExportOnly => suite.kem == Kem::X25519 && suite.kdf == Kdf::Sha256,
                    Aead::Aes128Gcm => suite.kem == Kem::P256 && suite.kdf == Kdf::Sha256,
                };
                if !keep {
                    continue;
                }
            }
            let heavy = matches!(suite.kem, Kem::P384 | Kem::P521);
            for mode in MODES {
                let shapes: Vec<(usize, usize, usize)> = if t { vec![(20, 32, 22), (0, 64, 1)] } else { vec![(20, 32, 22)] };
                for (info_len, psk_len, psk_id_len) in shapes {
                    tag += 1;
                    // P-384 / P-521 receivers cost milliseconds per perturbation
                    let stride = if heavy && !t { 8 } else { 1 };
                    v.push(Case { suite, mode, info_len, psk_len, psk_id_len, stride, tag, len_sweep: 0 });
                }
            }
        }
        for kdf in crate::refmodel::KDFS {
            for chunk in 0..4usize {
                tag += 1;
                // (chunk, len) are folded into info_len / len_sweep: lengths chunk*40+1 ..= chunk*40+40
                v.push(Case { suite: SuiteId { kem: Kem::X25519, kdf, aead: Aead::ChaCha20Poly1305 }, mode: Mode::Psk, info_len: chunk * 40 + 1, psk_len: 32, psk_id_len: 9, stride: 1, tag, len_sweep: chunk * 40 + 40 });
            }
        }
        v
    }
    fn run(&self, cfg: &Cfg, c: &Case) -> CaseOut {
        let mut out = CaseOut::new();
        out.outcome = format!("{:?}/{}{}", c.mode, c.suite.kem.name(), if c.len_sweep > 0 { "/length-sweep" } else { "" });
        if c.len_sweep > 0 {
            let k = keys(c.suite.kem, c.tag, cfg.seed);
            for l in c.info_len..=c.len_sweep {
                for which in 0..3 {
                    let long = bytes(Fill::Mix, l, 70 + which, cfg.seed);
                    let mut other = long.clone();
                    other[l - 1] ^= 0x01;
                    let short = bytes(Fill::Mix, 9, 75, cfg.seed);
                    let (info_s, psk_s, id_s, info_r, psk_r, id_r) = match which {
                        0 => (long.clone(), vec![9u8; 32], short.clone(), other.clone(), vec![9u8; 32], short.clone()),
                        1 => (short.clone(), vec![9u8; 32], long.clone(), short.clone(), vec![9u8; 32], other.clone()),
                        _ => (short.clone(), long.clone(), short.clone(), short.clone(), other.clone(), short.clone()),
                    };
                    let m_s = mode_spec(Mode::Psk, &k, &psk_s, &id_s);
                    let m_r = mode_spec(Mode::Psk, &k, &psk_r, &id_r);
                    let (enc, p) = match produce(c.suite, &m_s, &k.pk_r, &info_s, &k.ikm_e, cfg.seed) {
                        Ok(x) => x,
                        Err(e) => {
                            out.fail(e);
                            return out;
                        }
                    };
                    if l % 16 == 1 && !must_share(&mut out, "length-sweep baseline", c.suite, &m_s, &k.sk_r, &enc, &info_s, &p) {
                        return out;
                    }
                    must_not_share(&mut out, &format!("{} Psk [{} of {} bytes, receiver's differs in the last byte only]", c.suite.name(), ["info", "psk_id", "psk"][which as usize], l), c.suite, &m_r, &k.sk_r, &enc, &info_r, &p);
                }
            }
            return out;
        }
        let k = keys(c.suite.kem, c.tag, cfg.seed);
        let k2 = keys(c.suite.kem, c.tag + 100_000, cfg.seed);
        let info = bytes(Fill::Mix, c.info_len, 10, cfg.seed);
        let psk = bytes(Fill::Mix, c.psk_len, 11, cfg.seed);
        let psk_id = bytes(Fill::Mix, c.psk_id_len, 12, cfg.seed);
        let m = mode_spec(c.mode, &k, &psk, &psk_id);
        let (enc, p) = match produce(c.suite, &m, &k.pk_r, &info, &k.ikm_e, cfg.seed) {
            Ok(x) => x,
            Err(e) => {
                out.fail(e);
                return out;
            }
        };
        if !must_share(&mut out, "baseline", c.suite, &m, &k.sk_r, &enc, &info, &p) {
            return out;
        }
        let mut classes: std::collections::BTreeMap<&'static str, u64> = Default::default();
        let mut perturb = |out: &mut CaseOut, what: String, suite_r: SuiteId, m_r: &ModeSpec, sk_r: &[u8], enc_r: &[u8], info_r: &[u8]| {
            let cl = must_not_share(out, &format!("{} {:?} [{}]", c.suite.name(), c.mode, what), suite_r, m_r, sk_r, enc_r, info_r, &p);
            *classes.entry(cl).or_insert(0) += 1;
        };
        let bits = |len: usize, stride: usize| -> Vec<usize> {
            let n = len * 8;
            let mut v: Vec<usize> = (0..n).step_by(stride.max(1)).collect();
            for b in [0usize, 7, 8, n.saturating_sub(8), n.saturating_sub(1)] {
                if b < n {
                    v.push(b);
                }
            }
            v.sort();
            v.dedup();
            v
        };
        // ---- info ----
        for b in bits(info.len(), c.stride) {
            perturb(&mut out, format!("info bit {}", b), c.suite, &m, &k.sk_r, &enc, &flip(&info, b));
        }
        let mut variants: Vec<(String, Vec<u8>)> = vec![("info + 00".into(), [&info[..], &[0]].concat()), ("00 + info".into(), [&[0][..], &info[..]].concat())];
        if !info.is_empty() {
            variants.push(("info without first byte".into(), info[1..].to_vec()));
            variants.push(("info without last byte".into(), info[..info.len() - 1].to_vec()));
            variants.push(("empty info".into(), vec![]));
        }
        for (w, i2) in variants {
            perturb(&mut out, w, c.suite, &m, &k.sk_r, &enc, &i2);
        }
        // ---- psk / psk_id ----
        if c.mode.has_psk() {
            for b in bits(psk.len(), c.stride) {
                let mut m2 = m.clone();
                m2.psk = flip(&psk, b);
                perturb(&mut out, format!("psk bit {}", b), c.suite, &m2, &k.sk_r, &enc, &info);
            }
            for b in bits(psk_id.len(), c.stride) {
                let mut m2 = m.clone();
                m2.psk_id = flip(&psk_id, b);
                perturb(&mut out, format!("psk_id bit {}", b), c.suite, &m2, &k.sk_r, &enc, &info);
            }
            let mut pv: Vec<(String, Vec<u8>, Vec<u8>, Vec<u8>)> = vec![];
            pv.push(("psk + 00".into(), [&psk[..], &[0]].concat(), psk_id.clone(), info.clone()));
            pv.push(("psk_id + 00".into(), psk.clone(), [&psk_id[..], &[0]].concat(), info.clone()));
            pv.push(("00 + psk".into(), [&[0][..], &psk[..]].concat(), psk_id.clone(), info.clone()));
            if psk.len() > 1 {
                pv.push(("psk without last byte".into(), psk[..psk.len() - 1].to_vec(), psk_id.clone(), info.clone()));
                pv.push(("psk without first byte".into(), psk[1..].to_vec(), psk_id.clone(), info.clone()));
                // boundary shift psk | psk_id
                pv.push(("last psk byte moved to front of psk_id".into(), psk[..psk.len() - 1].to_vec(), [&psk[psk.len() - 1..], &psk_id[..]].concat(), info.clone()));
            }
            if psk_id.len() > 1 {
                pv.push(("psk_id without last byte".into(), psk.clone(), psk_id[..psk_id.len() - 1].to_vec(), info.clone()));
                pv.push(("first psk_id byte moved to end of psk".into(), [&psk[..], &psk_id[..1]].concat(), psk_id[1..].to_vec(), info.clone()));
                // boundary shift psk_id | info
                pv.push(("last psk_id byte moved to front of info".into(), psk.clone(), psk_id[..psk_id.len() - 1].to_vec(), [&psk_id[psk_id.len() - 1..], &info[..]].concat()));
            }
            if !info.is_empty() {
                pv.push(("first info byte moved to end of psk_id".into(), psk.clone(), [&psk_id[..], &info[..1]].concat(), info[1..].to_vec()));
                pv.push(("last info byte moved to front of psk_id".into(), psk.clone(), [&info[info.len() - 1..], &psk_id[..]].concat(), info[..info.len() - 1].to_vec()));
            }
            pv.push(("psk and psk_id swapped".into(), psk_id.clone(), psk.clone(), info.clone()));
            pv.push(("empty bundle".into(), vec![], vec![], info.clone()));
            for (w, p2, id2, i2) in pv {
                let mut m2 = m.clone();
                m2.psk = p2;
                m2.psk_id = id2;
                perturb(&mut out, w, c.suite, &m2, &k.sk_r, &enc, &i2);
            }
        }
        // ---- mode swaps with the same data ----
        for other in MODES {
            if other == c.mode {
                continue;
            }
            // receiver in mode `other`, keeping whatever PSK data / sender key the baseline has,
            // and using an empty bundle where the baseline has no PSK
            let mut m2 = ModeSpec { kind: other.id(), psk: vec![], psk_id: vec![], sk_s: vec![], pk_s: vec![] };
            if other.has_psk() && c.mode.has_psk() {
                m2.psk = psk.clone();
                m2.psk_id = psk_id.clone();
            }
            if other.has_auth() {
                m2.pk_s = k.pk_s.clone();
            }
            perturb(&mut out, format!("receiver in mode {:?} (same data, empty bundle where the sender has none)", other), c.suite, &m2, &k.sk_r, &enc, &info);
            if other.has_psk() && !c.mode.has_psk() {
                let mut m3 = m2.clone();
                m3.psk = psk.clone();
                m3.psk_id = psk_id.clone();
                perturb(&mut out, format!("receiver in mode {:?} with a non-empty bundle", other), c.suite, &m3, &k.sk_r, &enc, &info);
            }
        }
        // in the auth modes: a different expected sender key
        if c.mode.has_auth() {
            let mut m2 = m.clone();
            m2.pk_s = k2.pk_s.clone();
            perturb(&mut out, "different expected sender public key".into(), c.suite, &m2, &k.sk_r, &enc, &info);
        }
        // ---- suite: other KDF, other AEAD ----
        for kdf in KDFS {
            if kdf != c.suite.kdf {
                perturb(&mut out, format!("receiver KDF {:?}", kdf), SuiteId { kdf, ..c.suite }, &m, &k.sk_r, &enc, &info);
            }
        }
        for aead in AEADS {
            if aead != c.suite.aead {
                perturb(&mut out, format!("receiver AEAD {}", aead.name()), SuiteId { aead, ..c.suite }, &m, &k.sk_r, &enc, &info);
            }
        }
        // ---- recipient key, encapsulated key ----
        perturb(&mut out, "different recipient key pair".into(), c.suite, &m, &k2.sk_r, &enc, &info);
        if let Ok((enc2, _)) = produce(c.suite, &m, &k.pk_r, &info, &k2.ikm_e, cfg.seed) {
            perturb(&mut out, "encapsulated key of another session to the same recipient".into(), c.suite, &m, &k.sk_r, &enc2, &info);
        }
        // the serialized keys with bytes appended / a leading byte dropped (a lenient parser would map them to the same key)
        for (what, extra) in [("00", vec![0u8]), ("ff", vec![0xff]), ("a copy of itself", enc.clone())] {
            perturb(&mut out, format!("encapsulated key || {}", what), c.suite, &m, &k.sk_r, &[&enc[..], &extra[..]].concat(), &info);
            perturb(&mut out, format!("recipient private key || {}", what), c.suite, &m, &[&k.sk_r[..], &extra[..]].concat(), &enc, &info);
            if c.mode.has_auth() {
                let mut m2 = m.clone();
                m2.pk_s.extend_from_slice(&extra);
                perturb(&mut out, format!("sender public key || {}", what), c.suite, &m2, &k.sk_r, &enc, &info);
            }
        }
        perturb(&mut out, "encapsulated key without its last byte".into(), c.suite, &m, &k.sk_r, &enc[..enc.len() - 1], &info);
        // strings that differ only in ASCII whitespace / NUL at their edges are different strings
        for ws in [&b"\n"[..], b" ", b"\t", b"\r\n", b"\0"] {
            perturb(&mut out, format!("info with {:?} appended", ws), c.suite, &m, &k.sk_r, &enc, &[&info[..], ws].concat());
            perturb(&mut out, format!("info with {:?} prepended", ws), c.suite, &m, &k.sk_r, &enc, &[ws, &info[..]].concat());
            if c.mode.has_psk() {
                let mut m2 = m.clone();
                m2.psk_id.extend_from_slice(ws);
                perturb(&mut out, format!("psk_id with {:?} appended", ws), c.suite, &m2, &k.sk_r, &enc, &info);
                let mut m2 = m.clone();
                m2.psk_id = [ws, &m.psk_id[..]].concat();
                perturb(&mut out, format!("psk_id with {:?} prepended", ws), c.suite, &m2, &k.sk_r, &enc, &info);
                let mut m2 = m.clone();
                m2.psk.extend_from_slice(ws);
                perturb(&mut out, format!("psk with {:?} appended", ws), c.suite, &m2, &k.sk_r, &enc, &info);
            }
        }
        if c.suite.kem == Kem::X25519 {
            for b in 0..256 {
                perturb(&mut out, format!("enc bit {}", b), c.suite, &m, &k.sk_r, &flip(&enc, b), &info);
            }
        } else {
            // NIST: a flipped bit gives an invalid point (setup fails) - a few positions, plus -P (valid, same x)
            // (every bit of the leading SEC1 tag byte, and a few coordinate bits)
            for b in [0usize, 1, 2, 3, 4, 5, 6, 7, 8, 9, enc.len() * 4, enc.len() * 8 - 1] {
                perturb(&mut out, format!("enc bit {}", b), c.suite, &m, &k.sk_r, &flip(&enc, b), &info);
            }
        }
        // NIST: -P has the same x coordinate, so the DH output is unchanged and only kem_context tells
        // the two encapsulated keys (resp. recipient keys) apart
        if let Some(neg_enc) = c.suite.kem.neg_pk(&enc) {
            perturb(&mut out, "enc replaced by -enc (same DH output)".into(), c.suite, &m, &k.sk_r, &neg_enc, &info);
        }
        if let Some(neg_sk) = c.suite.kem.neg_sk(&k.sk_r) {
            perturb(&mut out, "recipient private key replaced by n - sk (same DH output up to sign)".into(), c.suite, &m, &neg_sk, &enc, &info);
        }
        if c.mode.has_auth() {
            if let Some(neg_pk_s) = c.suite.kem.neg_pk(&k.pk_s) {
                let mut m2 = m.clone();
                m2.pk_s = neg_pk_s;
                perturb(&mut out, "expected sender key replaced by -pkS (same DH output)".into(), c.suite, &m2, &k.sk_r, &enc, &info);
            }
        }
        let _ = classes;
        // the same, for contexts that have used up their sequence numbers (export stays legal there): a receiver that
        // differs in the info string must still export different secrets after both sides reached exhaustion
        if crate::suites::HOOKS && c.suite.aead.can_seal() {
            let ops = suite_ops(c.suite);
            let info2 = [&info[..], &[0u8][..]].concat();
            let mk_s = |inf: &[u8]| {
                let mut rng = ScriptRng::new(&k.ikm_e);
                ops.setup_sender(&m, &k.pk_r, inf, &mut rng).ok()
            };
            if let (Some((_, mut s_base)), Some((enc2, mut s_help)), Obs::Ok(mut r2)) = (mk_s(&info), mk_s(&info2), ops.setup_receiver(&m, &k.sk_r, &enc, &info2)) {
                s_base.set_seq(u64::MAX);
                s_help.set_seq(u64::MAX);
                r2.set_seq(u64::MAX);
                let last = s_help.seal(b"last", b"");
                let _ = s_base.seal(b"last", b"");
                out.transitions += 1;
                if enc2 == enc {
                    if let Obs::Ok(ct) = last {
                        if r2.open(&ct, b"").is_ok() && s_base.seq_state().1 && r2.seq_state().1 {
                            for (ectx, l) in export_probes(cfg.seed) {
                                out.transitions += 1;
                                if let (Obs::Ok(a), Obs::Ok(b)) = (s_base.export(&ectx, l), r2.export(&ectx, l)) {
                                    if a == b {
                                        out.fail(format!("{} {:?}: after both contexts used sequence number 2^64-1, a receiver set up with info||00 exports the SAME secret as the sender (|ctx|={}, L={})", c.suite.name(), c.mode, ectx.len(), l));
                                        break;
                                    }
                                }
                            }
                        }
                    }
                }
            }
        }
        out
    }
}
