//! C11 - export: values vs R1's LabeledExpand(exporter_secret, "sec", ctx, L) for every L around
//! the limits (and every L at all for one suite per KDF), both roles, repeatability; export-only
//! suites export the same way while seal/open panic.

use super::*;
use crate::engine::{Cfg, Part};
use crate::refmodel::{Aead, Kdf, Kem, Mode, SuiteId, MODES};
use crate::rng::{bytes, Fill, ScriptRng};
use crate::suites::{all_suites, suite_ops};
use hpke::HpkeError;
use serde::{Deserialize, Serialize};

#[derive(Clone, Debug, Serialize, Deserialize)]
pub enum Case {
    Boundary { suite: SuiteId, mode: Mode, ctx_len: usize, tag: u64 },
    Sweep { suite: SuiteId, ctx_len: usize, l_from: usize, l_to: usize },
    ExportOnlyPanics { suite: SuiteId, mode: Mode },
    /// every exporter-context length in a range, two values of L
    CtxSweep { suite: SuiteId, from: usize, to: usize },
}

pub struct C11;

fn l_set(nh: usize) -> Vec<usize> {
    let m = 255 * nh;
    let mut v = vec![0, 1, 2, nh - 1, nh, nh + 1, 2 * nh, 255, 256, m - nh, m - 1, m, m + 1, m + 2, m + nh, 65534, 65535, 65536, 65537, 100000];
    v.sort();
    v.dedup();
    v
}

fn export_check(out: &mut CaseOut, refctx: &crate::refmodel::Ctx, got: Obs<Vec<u8>>, ctx: &[u8], l: usize, what: &str) {
    out.transitions += 1;
    out.nontrivial = true;
    match refctx.export(ctx, l) {
        Ok(want) => match got {
            Obs::Ok(v) if v == want => {}
            Obs::Ok(v) => out.fail(format!("{}: export(|ctx|={}, L={}) = {} want {}", what, ctx.len(), l, crate::obs::hx(&v), crate::obs::hx(&want))),
            o => out.fail(format!("{}: export(|ctx|={}, L={}): {} want Ok (L <= 255*Nh)", what, ctx.len(), l, o.class())),
        },
        Err(_) => match got {
            Obs::Err(HpkeError::KdfOutputTooLong) => {}
            o => out.fail(format!("{}: export(|ctx|={}, L={}): {} want Err(KdfOutputTooLong) (L > 255*Nh)", what, ctx.len(), l, o.class())),
        },
    }
}

impl Part for C11 {
    type Case = Case;
    fn name(&self) -> String {
        "E1-export-values".into()
    }
    fn rule(&self) -> String {
        "48 suites x 4 modes x both roles x exporter-context lengths x the boundary set of L (0,1,Nh-1,Nh,Nh+1,...,255Nh-1,255Nh,255Nh+1,65535,65536,65537,100000): value = R1 LabeledExpand(exporter_secret,\"sec\",ctx,L) compared in full, Ok iff L <= 255*Nh else KdfOutputTooLong, sender = receiver, repeated call = same bytes, also after seals/opens/rejections; full sweep of EVERY L in 0..=255*Nh+2 for one suite per KDF; sweep of EVERY exporter-context length in a range; export-only suites: every seal/open form must panic and never return; non-trivial = every case".into()
    }
    fn bound(&self, cfg: &Cfg) -> String {
        if cfg.tier.thorough() {
            "boundary set (20 L values) x 7 context lengths x 48 suites x 4 modes x 2 roles; sweep of all L in 0..=255*Nh+2 for 3 KDFs x 2 context lengths x 2 roles; every context length 0..=1200 for 3 suites and 0..=140 for all 48".into()
        } else {
            "boundary set (20 L values) x 3 context lengths x 48 suites x 4 modes x 2 roles; sweep of all L in 0..=8*Nh+2 and 247*Nh..=255*Nh+2 for 3 KDFs; every context length 0..=300 for 3 suites".into()
        }
    }
    fn enumerate(&self, cfg: &Cfg) -> Vec<Case> {
        let t = cfg.tier.thorough();
        let ctx_lens: Vec<usize> = if t { vec![0, 1, 11, 64, 65, 300, 65537] } else { vec![0, 11, 300] };
        let mut v = vec![];
        let mut tag = 11000;
        for suite in all_suites() {
            for mode in MODES {
                for &ctx_len in &ctx_lens {
                    tag += 1;
                    v.push(Case::Boundary { suite, mode, ctx_len, tag });
                }
                if !suite.aead.can_seal() {
                    v.push(Case::ExportOnlyPanics { suite, mode });
                }
            }
        }
        for (kem, kdf, aead) in [(Kem::X25519, Kdf::Sha256, Aead::ChaCha20Poly1305), (Kem::X25519, Kdf::Sha384, Aead::ExportOnly), (Kem::P256, Kdf::Sha512, Aead::Aes128Gcm)] {
            let suite = SuiteId { kem, kdf, aead };
            let nh = kdf.nh();
            let max = 255 * nh + 2;
            let ranges: Vec<(usize, usize)> = if t { vec![(0, max)] } else { vec![(0, 8 * nh + 2), (247 * nh, max)] };
            for ctx_len in if t { vec![0usize, 33] } else { vec![5usize] } {
                for &(a, b) in &ranges {
                    let chunk = 256;
                    let mut f = a;
                    while f <= b {
                        v.push(Case::Sweep { suite, ctx_len, l_from: f, l_to: (f + chunk - 1).min(b) });
                        f += chunk;
                    }
                }
            }
        }
        // every exporter-context LENGTH 0..=N (block boundaries of the hash, small stack buffers): one suite per KDF,
        // and every suite for the first 140 lengths in the thorough tier
        for suite in all_suites() {
            let main = matches!((suite.kem, suite.kdf, suite.aead), (Kem::X25519, Kdf::Sha256, Aead::ChaCha20Poly1305) | (Kem::P256, Kdf::Sha384, Aead::ExportOnly) | (Kem::X25519, Kdf::Sha512, Aead::Aes128Gcm));
            let n = if main { if t { 1200 } else { 300 } } else if t { 140 } else { continue };
            let mut f = 0;
            while f <= n {
                v.push(Case::CtxSweep { suite, from: f, to: (f + 99).min(n) });
                f += 100;
            }
        }
        v
    }
    fn run(&self, cfg: &Cfg, c: &Case) -> CaseOut {
        let mut out = CaseOut::new();
        match c {
            Case::Boundary { suite, mode, ctx_len, tag } => {
                out.outcome = format!("boundary/{:?}/{:?}", suite.kdf, mode);
                let ops = suite_ops(*suite);
                let k = keys(suite.kem, *tag, cfg.seed);
                let info = bytes(Fill::Mix, 20, 10, cfg.seed);
                let m = mode_spec(*mode, &k, &bytes(Fill::Mix, 32, 11, cfg.seed), &bytes(Fill::Mix, 22, 12, cfg.seed));
                let (enc, mut refctx) = match r1_setup_s(*suite, &m, &k.pk_r, &info, &k.ikm_e) {
                    Some(x) => x,
                    None => {
                        out.fail_machinery("R1 setup failed");
                        return out;
                    }
                };
                let mut rng = ScriptRng::new(&k.ikm_e);
                let mut s = match ops.setup_sender(&m, &k.pk_r, &info, &mut rng).need("setup_sender") {
                    Ok(x) => x.1,
                    Err(e) => {
                        out.fail(e);
                        return out;
                    }
                };
                let mut r = match ops.setup_receiver(&m, &k.sk_r, &enc, &info).need("setup_receiver") {
                    Ok(x) => x,
                    Err(e) => {
                        out.fail(e);
                        return out;
                    }
                };
                let ectx = bytes(Fill::Mix, *ctx_len, 13, cfg.seed);
                let ls = l_set(suite.kdf.nh());
                for (i, &l) in ls.iter().enumerate() {
                    export_check(&mut out, &refctx, s.export(&ectx, l), &ectx, l, "sender");
                    export_check(&mut out, &refctx, r.export(&ectx, l), &ectx, l, "receiver");
                    // interleave traffic: the value must not depend on how many messages went by
                    if suite.aead.can_seal() && i % 4 == 1 {
                        let ct = refctx.seal(b"a", b"traffic").unwrap();
                        let _ = s.seal(b"traffic", b"a");
                        if i % 8 == 1 {
                            let _ = r.open(&ct, b"a");
                        } else {
                            let mut bad = ct.clone();
                            bad[0] ^= 1;
                            let _ = r.open(&bad, b"a");
                        }
                    }
                }
                // repeatability after all of that
                let l = suite.kdf.nh() + 1;
                export_check(&mut out, &refctx, s.export(&ectx, l), &ectx, l, "sender (repeat after traffic)");
                export_check(&mut out, &refctx, r.export(&ectx, l), &ectx, l, "receiver (repeat after traffic)");
            }
            Case::Sweep { suite, ctx_len, l_from, l_to } => {
                out.outcome = format!("sweep/{:?}", suite.kdf);
                let ops = suite_ops(*suite);
                let k = keys(suite.kem, 11999, cfg.seed);
                let info = bytes(Fill::Mix, 5, 10, cfg.seed);
                let m = mode_spec(Mode::Base, &k, b"", b"");
                let (enc, refctx) = match r1_setup_s(*suite, &m, &k.pk_r, &info, &k.ikm_e) {
                    Some(x) => x,
                    None => {
                        out.fail_machinery("R1 setup failed");
                        return out;
                    }
                };
                let mut rng = ScriptRng::new(&k.ikm_e);
                let s = match ops.setup_sender(&m, &k.pk_r, &info, &mut rng).need("setup_sender") {
                    Ok(x) => x.1,
                    Err(e) => {
                        out.fail(e);
                        return out;
                    }
                };
                let r = match ops.setup_receiver(&m, &k.sk_r, &enc, &info).need("setup_receiver") {
                    Ok(x) => x,
                    Err(e) => {
                        out.fail(e);
                        return out;
                    }
                };
                let ectx = bytes(Fill::Mix, *ctx_len, 14, cfg.seed);
                for l in *l_from..=*l_to {
                    if l % 2 == 0 {
                        export_check(&mut out, &refctx, s.export(&ectx, l), &ectx, l, "sender sweep");
                    } else {
                        export_check(&mut out, &refctx, r.export(&ectx, l), &ectx, l, "receiver sweep");
                    }
                }
            }
            Case::CtxSweep { suite, from, to } => {
                out.outcome = format!("ctx-sweep/{:?}", suite.kdf);
                let ops = suite_ops(*suite);
                let k = keys(suite.kem, 11997, cfg.seed);
                let info = bytes(Fill::Mix, 9, 10, cfg.seed);
                let m = mode_spec(Mode::Base, &k, b"", b"");
                let (enc, refctx) = match r1_setup_s(*suite, &m, &k.pk_r, &info, &k.ikm_e) {
                    Some(x) => x,
                    None => {
                        out.fail_machinery("R1 setup failed");
                        return out;
                    }
                };
                let mut rng = ScriptRng::new(&k.ikm_e);
                let (s, r) = match (ops.setup_sender(&m, &k.pk_r, &info, &mut rng).need("setup_sender"), ops.setup_receiver(&m, &k.sk_r, &enc, &info).need("setup_receiver")) {
                    (Ok(s), Ok(r)) => (s.1, r),
                    (Err(e), _) | (_, Err(e)) => {
                        out.fail(e);
                        return out;
                    }
                };
                let nh = suite.kdf.nh();
                for cl in *from..=*to {
                    // contexts of neighbouring lengths share a prefix, so a dropped or duplicated tail byte shows
                    let ectx = bytes(Fill::Mix, *to + 1, 15, cfg.seed)[..cl].to_vec();
                    for l in [nh + 1, 16] {
                        if cl % 2 == 0 {
                            export_check(&mut out, &refctx, s.export(&ectx, l), &ectx, l, "sender context-length sweep");
                        } else {
                            export_check(&mut out, &refctx, r.export(&ectx, l), &ectx, l, "receiver context-length sweep");
                        }
                    }
                }
            }
            Case::ExportOnlyPanics { suite, mode } => {
                out.outcome = "export-only-panics".into();
                let ops = suite_ops(*suite);
                let k = keys(suite.kem, 11998, cfg.seed);
                let info = b"export only".to_vec();
                let m = mode_spec(*mode, &k, &bytes(Fill::Mix, 32, 11, cfg.seed), &bytes(Fill::Mix, 22, 12, cfg.seed));
                let (enc, _refctx) = match r1_setup_s(*suite, &m, &k.pk_r, &info, &k.ikm_e) {
                    Some(x) => x,
                    None => {
                        out.fail_machinery("R1 setup failed");
                        return out;
                    }
                };
                let mut rng = ScriptRng::new(&k.ikm_e);
                let mut must_panic = |out: &mut CaseOut, what: &str, class: String, is_panic: bool| {
                    out.transitions += 1;
                    out.nontrivial = true;
                    if !is_panic {
                        out.fail(format!("export-only suite: {} returned {} instead of panicking", what, class));
                    }
                };
                if let Ok((_, mut s)) = ops.setup_sender(&m, &k.pk_r, &info, &mut rng).need("setup_sender") {
                    for pl in [0usize, 1, 16] {
                        let o = s.seal(&vec![7u8; pl], b"aad");
                        must_panic(&mut out, "seal", o.class(), o.is_panic());
                        let mut b = vec![7u8; pl];
                        let o = s.seal_ip(&mut b, b"aad");
                        must_panic(&mut out, "seal_in_place_detached", o.class(), o.is_panic());
                    }
                } else {
                    out.fail("setup_sender failed for an export-only suite");
                }
                if let Ok(mut r) = ops.setup_receiver(&m, &k.sk_r, &enc, &info).need("setup_receiver") {
                    for cl in [0usize, 1, 16, 40] {
                        let o = r.open(&vec![0u8; cl], b"aad");
                        must_panic(&mut out, "open", o.class(), o.is_panic());
                        let mut b = vec![0u8; cl];
                        let o = r.open_ip(&mut b, b"aad", &[]);
                        must_panic(&mut out, "open_in_place_detached", o.class(), o.is_panic());
                    }
                } else {
                    out.fail("setup_receiver failed for an export-only suite");
                }
                let mut rng = ScriptRng::new(&k.ikm_e);
                let o = ops.single_shot_seal(&m, &k.pk_r, &info, b"pt", b"aad", &mut rng);
                must_panic(&mut out, "single_shot_seal", o.class(), o.is_panic());
                let mut rng = ScriptRng::new(&k.ikm_e);
                let mut b = b"pt".to_vec();
                let o = ops.single_shot_seal_ip(&m, &k.pk_r, &info, &mut b, b"aad", &mut rng);
                must_panic(&mut out, "single_shot_seal_in_place_detached", o.class(), o.is_panic());
                let o = ops.single_shot_open(&m, &k.sk_r, &enc, &info, b"0123456789abcdef0123", b"aad");
                must_panic(&mut out, "single_shot_open", o.class(), o.is_panic());
                let mut b = b"ct".to_vec();
                let o = ops.single_shot_open_ip(&m, &k.sk_r, &enc, &info, &mut b, b"aad", &[]);
                must_panic(&mut out, "single_shot_open_in_place_detached", o.class(), o.is_panic());
            }
        }
        out
    }
}
