//! C01 - round trip, ciphertext length, in-place/detached shape

use super::*;
use crate::engine::{Cfg, Part};
use crate::refmodel::{Mode, SuiteId, MODES};
use crate::rng::{bytes, Fill, ScriptRng, FILLS_ALL, FILLS_QUICK};
use crate::suites::{seal_suites, suite_ops};
use serde::{Deserialize, Serialize};

#[derive(Clone, Debug, Serialize, Deserialize)]
pub enum Seq {
    /// every plaintext length 0..=n (aad length walks along): density instead of boundaries
    Dense { n: usize },
    /// one long sequence walking the (pt length x aad length) grid
    Grid { pt_lens: Vec<usize>, aad_lens: Vec<usize> },
    /// an explicit short sequence of (pt length, aad length)
    Short(Vec<(usize, usize)>),
}

#[derive(Clone, Debug, Serialize, Deserialize)]
pub struct Case {
    pub suite: SuiteId,
    pub mode: Mode,
    pub info_len: usize,
    pub psk_len: usize,
    pub psk_id_len: usize,
    pub seq: Seq,
    pub fill: Fill,
    pub tag: u64,
    /// Auth modes: the sender's identity key pair IS the recipient's key pair (a party sealing to itself)
    #[serde(default)]
    pub self_addressed: bool,
}

pub struct C01;

const ALPHA: [(usize, usize); 4] = [(0, 0), (1, 0), (16, 1), (17, 16)];

fn short_seqs() -> Vec<Vec<(usize, usize)>> {
    let mut v = vec![];
    for a in ALPHA {
        v.push(vec![a]);
        for b in ALPHA {
            v.push(vec![a, b]);
            for c in ALPHA {
                v.push(vec![a, b, c]);
            }
        }
    }
    v
}

impl Part for C01 {
    type Case = Case;
    fn name(&self) -> String {
        "E1-roundtrip".into()
    }
    fn rule(&self) -> String {
        "suite x mode x info length x psk shape x message-shape sequence x fill; message i sealed with the allocating API for even i and the in-place detached API for odd i and opened with the other API; oracle: i-th opened plaintext = i-th plaintext, |ct| = |pt| + Nt, buffer length unchanged, ct_alloc = ct_inplace || tag = R1's bytes; non-trivial = at least one non-empty plaintext round-tripped".into()
    }
    fn bound(&self, cfg: &Cfg) -> String {
        if cfg.tier.thorough() {
            "36 suites x 4 modes x 6 info lengths x 5 psk shapes x (17x6 length grid + LEN_BIG) ; all 84 sequences of length <= 3 over a 4-shape alphabet per suite x mode; 5 fills rotating; long info/psk/psk_id (600..65537 bytes) for 12 suites x 4 modes".into()
        } else {
            "36 suites x 4 modes x 2 info lengths x 1 psk shape x 17x3 length grid; the 84 short sequences for one (KEM,KDF) pair per AEAD x 4 modes; 2 fills rotating; long info/psk/psk_id (600..800 bytes) for 12 suites x 4 modes".into()
        }
    }
    fn enumerate(&self, cfg: &Cfg) -> Vec<Case> {
        let t = cfg.tier.thorough();
        let infos: Vec<usize> = if t { INFO_LENS.to_vec() } else { vec![0, 65] };
        let psks: Vec<(usize, usize)> = if t { PSK_SHAPES.to_vec() } else { vec![(32, 22)] };
        let mut v = vec![];
        let mut tag = 1000u64;
        for suite in seal_suites() {
            for mode in MODES {
                for &info_len in &infos {
                    // the crate accepts the empty bundle in the PSK modes (C15), so it is an input here too
                    let shapes = if mode.has_psk() { [&psks[..], &[(0usize, 0usize)][..]].concat() } else { vec![(0, 0)] };
                    for (psk_len, psk_id_len) in shapes {
                        tag += 1;
                        let fill = if t { FILLS_ALL[(tag % 5) as usize] } else { FILLS_QUICK[(tag % 2) as usize] };
                        let mut pt_lens = LEN_BLOCK.to_vec();
                        if (t && info_len == 20) || (!t && info_len == 65 && suite.kdf == suite.kem.kdf() && mode == Mode::Base) {
                            pt_lens.extend_from_slice(&LEN_BIG);
                        }
                        let aad_lens = if t { vec![0, 1, 15, 16, 17, 64] } else { vec![0, 1, 17] };
                        v.push(Case { suite, mode, info_len, psk_len, psk_id_len, seq: Seq::Grid { pt_lens, aad_lens }, fill, tag, self_addressed: false });
                    }
                }
                if mode.has_auth() && suite.kdf == suite.kem.kdf() {
                    tag += 1;
                    v.push(Case { suite, mode, info_len: 5, psk_len: if mode.has_psk() { 32 } else { 0 }, psk_id_len: if mode.has_psk() { 3 } else { 0 }, seq: Seq::Short(vec![(7, 2), (0, 0)]), fill: Fill::Mix, tag, self_addressed: true });
                }
                // long key-schedule strings (info / psk / psk_id far beyond any internal buffer size)
                if suite.kdf == suite.kem.kdf() {
                    let mut longs: Vec<(usize, usize, usize)> = vec![(600, 32, 5)];
                    if mode.has_psk() {
                        longs.extend_from_slice(&[(5, 700, 5), (5, 32, 800)]);
                    }
                    if t {
                        longs.extend_from_slice(&[(65537, 32, 5), (4096, 4097, 4095)]);
                    }
                    for (il, pl, idl) in longs {
                        tag += 1;
                        let (pl, idl) = if mode.has_psk() { (pl, idl) } else { (0, 0) };
                        v.push(Case { suite, mode, info_len: il, psk_len: pl, psk_id_len: idl, seq: Seq::Short(vec![(9, 3), (0, 0)]), fill: Fill::Mix, tag, self_addressed: false });
                    }
                }
                // dense length sweep for one (KEM, KDF) pair per AEAD
                if suite.kem == crate::refmodel::Kem::X25519 && suite.kdf == crate::refmodel::Kdf::Sha256 && (mode == Mode::Base || t) {
                    tag += 1;
                    v.push(Case { suite, mode, info_len: 7, psk_len: if mode.has_psk() { 32 } else { 0 }, psk_id_len: if mode.has_psk() { 5 } else { 0 }, seq: Seq::Dense { n: if t { 2200 } else { 1100 } }, fill: Fill::Mix, tag, self_addressed: false });
                }
                // short sequences: every shape at positions 0,1,2 after every other shape
                let do_short = t || (suite.kem == crate::refmodel::Kem::X25519 && suite.kdf == crate::refmodel::Kdf::Sha384)
                    || (suite.kem == crate::refmodel::Kem::P256 && suite.kdf == crate::refmodel::Kdf::Sha256 && suite.aead == crate::refmodel::Aead::ChaCha20Poly1305);
                if do_short {
                    for s in short_seqs() {
                        tag += 1;
                        let (pl, il) = if mode.has_psk() { (32, 22) } else { (0, 0) };
                        v.push(Case { suite, mode, info_len: 20, psk_len: pl, psk_id_len: il, seq: Seq::Short(s), fill: Fill::Mix, tag, self_addressed: false });
                    }
                }
            }
        }
        v
    }
    fn run(&self, cfg: &Cfg, c: &Case) -> CaseOut {
        let mut out = CaseOut::new();
        let ops = suite_ops(c.suite);
        let mut k = keys(c.suite.kem, c.tag, cfg.seed);
        if c.self_addressed {
            k.sk_s = k.sk_r.clone();
            k.pk_s = k.pk_r.clone();
        }
        // X25519: both sides may hold the sender's public key in a NON-canonical encoding (bit 255 set - RFC 7748 says it is
        // ignored; from_bytes accepts it and to_bytes returns it verbatim): same point, and the round trip still works
        if c.suite.kem == crate::refmodel::Kem::X25519 && c.mode.has_auth() && c.tag % 3 == 0 {
            k.pk_s[31] |= 0x80;
        }
        let info = bytes(c.fill, c.info_len, 10, cfg.seed);
        let psk = bytes(c.fill, c.psk_len, 11, cfg.seed ^ 0xabcd);
        let psk_id = bytes(c.fill, c.psk_id_len, 12, cfg.seed ^ 0x1234);
        let m = mode_spec(c.mode, &k, &psk, &psk_id);
        out.outcome = format!("{:?}/{}", c.mode, c.suite.aead.name());
        let nt = c.suite.aead.nt();
        let shapes: Vec<(usize, usize)> = match &c.seq {
            Seq::Short(s) => s.clone(),
            // every plaintext length 0..=n (aad lengths walking through all residues mod 307), then every AAD length 0..=n
            Seq::Dense { n } => (0..=*n).map(|l| (l, (l * 7 + 1) % 307)).chain((0..=*n).map(|l| (l % 4, l))).collect(),
            Seq::Grid { pt_lens, aad_lens } => {
                let mut s = vec![];
                for &p in pt_lens {
                    for &a in aad_lens {
                        s.push((p, a));
                    }
                }
                s
            }
        };
        let mut rng = ScriptRng::new(&k.ikm_e);
        let (enc, mut s) = match ops.setup_sender(&m, &k.pk_r, &info, &mut rng).need("setup_sender") {
            Ok(x) => x,
            Err(e) => {
                out.fail(e);
                return out;
            }
        };
        // the encapsulated key travels as bytes
        let mut r = match ops.setup_receiver(&m, &k.sk_r, &enc, &info).need("setup_receiver") {
            Ok(x) => x,
            Err(e) => {
                out.fail(e);
                return out;
            }
        };
        // the single-shot forms paired with the context forms: what single_shot_seal* produces a receiver
        // CONTEXT must open (as its first message), and what a sender CONTEXT seals first single_shot_open* must open
        if !shapes.is_empty() {
            let (pl, al) = shapes[shapes.len() / 2];
            let pt = bytes(c.fill, pl, 500, cfg.seed);
            let aad = bytes(c.fill, al, 501, cfg.seed);
            let mut rng2 = ScriptRng::new(&k.ikm_e);
            let mut buf = pt.clone();
            match ops.single_shot_seal_ip(&m, &k.pk_r, &info, &mut buf, &aad, &mut rng2) {
                Obs::Ok((enc2, tag2)) => {
                    out.check("single_shot_seal_in_place_detached: buffer length unchanged, Nt-byte tag", buf.len() == pl && tag2.len() == nt);
                    match ops.setup_receiver(&m, &k.sk_r, &enc2, &info) {
                        Obs::Ok(mut r2) => {
                            let wire = [&buf[..], &tag2[..]].concat();
                            expect_bytes(&mut out, "receiver context opens the single_shot_seal_in_place_detached message", &r2.open(&wire, &aad), &pt);
                        }
                        o => out.fail(format!("setup_receiver for the single-shot message: {}", o.map(|_| ()).class())),
                    }
                }
                o => out.fail(format!("single_shot_seal_in_place_detached: {}", o.map(|_| ()).class())),
            }
            let mut rng3 = ScriptRng::new(&k.ikm_e);
            match ops.single_shot_seal(&m, &k.pk_r, &info, &pt, &aad, &mut rng3) {
                Obs::Ok((enc3, ct3)) => {
                    out.check("single_shot_seal: |ct| = |pt| + Nt", ct3.len() == pl + nt);
                    let mut b = ct3[..ct3.len() - nt].to_vec();
                    let o = ops.single_shot_open_ip(&m, &k.sk_r, &enc3, &info, &mut b, &aad, &ct3[ct3.len() - nt..]).map(|_| b.clone());
                    expect_bytes(&mut out, "single_shot_open_in_place_detached opens the single_shot_seal message", &o, &pt);
                }
                o => out.fail(format!("single_shot_seal: {}", o.map(|_| ()).class())),
            }
            // a sender context's first message, opened by the two single-shot open forms
            let mut rng4 = ScriptRng::new(&k.ikm_e);
            if let Obs::Ok((enc4, mut s4)) = ops.setup_sender(&m, &k.pk_r, &info, &mut rng4) {
                if let Obs::Ok(ct4) = s4.seal(&pt, &aad) {
                    expect_bytes(&mut out, "single_shot_open opens a sender context's first message", &ops.single_shot_open(&m, &k.sk_r, &enc4, &info, &ct4, &aad), &pt);
                    let mut b = ct4[..ct4.len() - nt].to_vec();
                    let o = ops.single_shot_open_ip(&m, &k.sk_r, &enc4, &info, &mut b, &aad, &ct4[ct4.len() - nt..]).map(|_| b.clone());
                    expect_bytes(&mut out, "single_shot_open_in_place_detached opens a sender context's first message", &o, &pt);
                }
            }
        }
        // R1 in lock-step (ties the round trip to the RFC bytes as well)
        // (RFC 9180 defines no output for an empty PSK in a PSK mode: round trip only, no R1 bytes)
        let rfc_defined = !(c.mode.has_psk() && c.psk_len == 0);
        let mut ref_s = if rfc_defined { r1_setup_s(c.suite, &m, &k.pk_r, &info, &k.ikm_e).map(|x| x.1) } else { None };
        // the i-th message opens for EVERY i: continue the same session far into the sequence space (hook) -
        // three messages across each of these positions, sender and receiver moved together
        if matches!(c.seq, Seq::Grid { .. }) {
            let (mut s2, mut r2) = {
                let mut rng = ScriptRng::new(&k.ikm_e);
                match (ops.setup_sender(&m, &k.pk_r, &info, &mut rng), ops.setup_receiver(&m, &k.sk_r, &enc, &info)) {
                    (Obs::Ok((_, s2)), Obs::Ok(r2)) => (s2, r2),
                    _ => {
                        out.fail("second setup failed");
                        return out;
                    }
                }
            };
            for start in [(1u64 << 16) - 1, (1u64 << 32) - 2, (1u64 << 48) - 1, (1u64 << 56) - 1, u64::MAX - 2].into_iter().filter(|_| crate::suites::HOOKS) {
                s2.set_seq(start);
                r2.set_seq(start);
                for j in 0..3u64 {
                    let pt = bytes(c.fill, 3 + j as usize, 900 + j, cfg.seed);
                    let aad = bytes(c.fill, j as usize, 910 + j, cfg.seed);
                    let ct = s2.seal(&pt, &aad);
                    out.transitions += 1;
                    match ct {
                        Obs::Ok(ct) => {
                            expect_bytes(&mut out, &format!("message at sequence number {:#x} opens to its plaintext", start.wrapping_add(j)), &r2.open(&ct, &aad), &pt);
                        }
                        o => {
                            out.fail(format!("seal at sequence number {:#x}: {}", start.wrapping_add(j), o.class()));
                            break;
                        }
                    }
                }
            }
        }
        for (i, &(pl, al)) in shapes.iter().enumerate() {
            let pt = bytes(c.fill, pl, 100 + i as u64, cfg.seed);
            let aad = bytes(c.fill, al, 200 + i as u64, cfg.seed);
            let want_ct = ref_s.as_mut().map(|x| x.seal(&aad, &pt).unwrap());
            if i % 2 == 0 {
                // allocating seal, in-place detached open
                let ct = s.seal(&pt, &aad);
                out.transitions += 1;
                let ct = match ct {
                    Obs::Ok(v) => v,
                    o => {
                        out.fail(format!("seal #{} (pt {} aad {}): {}", i, pl, al, o.class()));
                        break;
                    }
                };
                out.check(&format!("#{}: |ct| = |pt| + Nt ({} vs {}+{})", i, ct.len(), pl, nt), ct.len() == pl + nt);
                if let Some(w) = &want_ct {
                    out.check(&format!("#{}: seal output equals R1 ciphertext", i), &ct == w);
                }
                if ct.len() < nt {
                    break;
                }
                // "delivered in order" on a real channel includes junk in between: a rejected copy (through the in-place form)
                // before every other message of this kind must leave the round trip intact
                if i % 4 == 2 {
                    let mut junk = ct[..ct.len() - nt].to_vec();
                    let mut jtag = ct[ct.len() - nt..].to_vec();
                    jtag[0] ^= 0x01;
                    let j = r.open_ip(&mut junk, &aad, &jtag);
                    out.transitions += 1;
                    if j != Obs::Err(hpke::HpkeError::OpenError) {
                        out.fail(format!("#{}: a copy with a flipped tag bit delivered first: {} want Err(OpenError)", i, j.class()));
                    }
                }
                let mut buf = ct[..ct.len() - nt].to_vec();
                let blen = buf.len();
                let o = r.open_ip(&mut buf, &aad, &ct[ct.len() - nt..]);
                out.transitions += 1;
                match o {
                    Obs::Ok(()) => {
                        out.check(&format!("#{}: in-place open leaves buffer length unchanged", i), buf.len() == blen);
                        out.check(&format!("#{}: opened plaintext = plaintext #{}", i, i), buf == pt);
                    }
                    o => {
                        out.fail(format!("open_in_place_detached #{} (pt {} aad {}): {}", i, pl, al, o.class()));
                        break;
                    }
                }
            } else {
                // in-place detached seal, allocating open
                let mut buf = pt.clone();
                let tag = s.seal_ip(&mut buf, &aad);
                out.transitions += 1;
                let tag = match tag {
                    Obs::Ok(v) => v,
                    o => {
                        out.fail(format!("seal_in_place_detached #{} (pt {} aad {}): {}", i, pl, al, o.class()));
                        break;
                    }
                };
                out.check(&format!("#{}: in-place seal leaves buffer length unchanged", i), buf.len() == pl);
                out.check(&format!("#{}: detached tag has Nt bytes", i), tag.len() == nt);
                let mut ct = buf.clone();
                ct.extend_from_slice(&tag);
                if let Some(w) = &want_ct {
                    out.check(&format!("#{}: in-place ciphertext || tag equals R1 ciphertext", i), &ct == w);
                }
                if i % 4 == 3 {
                    let mut junk = ct.clone();
                    junk[0] ^= 0x80;
                    let j = r.open(&junk, &aad).map(|_| ());
                    out.transitions += 1;
                    if j != Obs::Err(hpke::HpkeError::OpenError) {
                        out.fail(format!("#{}: a copy with a flipped first bit delivered first: {} want Err(OpenError)", i, j.class()));
                    }
                }
                let o = r.open(&ct, &aad);
                expect_bytes(&mut out, &format!("#{}: open(ct||tag) (pt {} aad {})", i, pl, al), &o, &pt);
                if !o.is_ok() {
                    break;
                }
            }
            if pl > 0 {
                out.nontrivial = true;
            }
        }
        out
    }
}
