//! C14 - single-shot and in-place interfaces are equivalent to the composed operations
//! C15 - PSK bundle rules (second part of this file)

use super::*;
use crate::engine::{Cfg, Part};
use crate::refmodel::{Aead, Kem, Mode, SuiteId, MODES};
use crate::rng::{bytes, Fill, ScriptRng};
use crate::suites::{seal_suites, suite_ops};
use hpke::HpkeError;
use serde::{Deserialize, Serialize};

#[derive(Clone, Debug, Serialize, Deserialize)]
pub struct Case {
    pub suite: SuiteId,
    pub mode: Mode,
    pub info_len: usize,
    pub pt_len: usize,
    pub aad_len: usize,
    pub tag: u64,
    /// compare the allocating and the in-place forms at the end of the sequence space (hook): last
    /// sequence number, and after exhaustion
    #[serde(default)]
    pub boundary: bool,
    /// Psk / AuthPsk with PskBundle::new("", "") (RFC 9180 defines no output there: R1 is not consulted)
    #[serde(default)]
    pub empty_bundle: bool,
    /// a short SEQUENCE of messages (with an empty one in the middle) opened by one context through the
    /// allocating form only and by another through the in-place form only: same results, same final state
    #[serde(default)]
    pub sequence: bool,
    /// Auth modes with an identity pair whose public half does not belong to the private half (the API
    /// accepts it): single-shot and composed forms must still agree
    #[serde(default)]
    pub odd_identity: bool,
    /// the ERROR side of the equivalence: recipient keys that make encapsulation fail (X25519 small order) through
    /// all four sealing forms, and the export-only AEAD (whose seal/open forms panic) through all eight forms
    #[serde(default)]
    pub errors: bool,
    /// the caller's RNG hands out exactly the bytes the recipient key pair was derived from (skE = skR, enc = pkR)
    #[serde(default)]
    pub rng_is_recipient: bool,
}

pub struct C14;

impl Part for C14 {
    type Case = Case;
    fn name(&self) -> String {
        "E1-single-shot-equivalence".into()
    }
    fn rule(&self) -> String {
        "36 suites x 4 modes x info shapes x (pt, aad) shapes: single_shot_seal* with RNG script rho == setup_sender(rho) then one seal* (enc, ct, tag bytes and the RNG draw log equal, and equal to R1); single_shot_open* == setup_receiver then one open* on the valid message, on every corruption class (bit flips, truncations to every length < Nt+2, extension, wrong aad), and - X25519 - on the 14 small-order encapsulated keys combined with valid, short and empty ciphertexts: same Ok bytes or the same error; seal = in-place ciphertext || tag; open(ct||tag) and open_in_place_detached(ct, tag) agree on acceptance for every split; the error side: all 14 small-order X25519 recipient keys through the four sealing forms (same EncapError) and as encapsulated keys through the four opening forms, and the 12 export-only suites through all eight forms (same panic / same error as the composed path); non-trivial = every case".into()
    }
    fn bound(&self, cfg: &Cfg) -> String {
        if cfg.tier.thorough() { "36 suites x 4 modes x 2 info lengths x {0,1,17,64}^2 message shapes".into() } else { "36 suites x 4 modes x 1 info length x 6 message shapes".into() }
    }
    fn enumerate(&self, cfg: &Cfg) -> Vec<Case> {
        let t = cfg.tier.thorough();
        let mut v = vec![];
        let mut tag = 14000;
        for suite in seal_suites() {
            for mode in MODES {
                for info_len in if t { vec![0usize, 33] } else { vec![20usize] } {
                    let shapes: Vec<(usize, usize)> = if t {
                        let l = [0usize, 1, 17, 64];
                        l.iter().flat_map(|p| l.iter().map(move |a| (*p, *a))).collect()
                    } else {
                        vec![(0, 0), (0, 17), (1, 1), (17, 0), (64, 64), (16, 1)]
                    };
                    // long messages (a separate code path for large buffers is a classic): one (KDF) per KEM and AEAD
                    let shapes: Vec<(usize, usize)> = if suite.kdf == suite.kem.kdf() && (t || mode == Mode::Base) { [&shapes[..], &[(4096, 3), (65537, 4097)][..]].concat() } else { shapes };
                    let shapes_first = shapes[0];
                    if suite.kdf == suite.kem.kdf() {
                        v.push(Case { suite, mode, info_len, pt_len: 13, aad_len: 2, tag: tag + 500_000, boundary: false, empty_bundle: false, sequence: false, odd_identity: false, errors: false, rng_is_recipient: true });
                    }
                    for (pt_len, aad_len) in shapes {
                        tag += 1;
                        v.push(Case { suite, mode, info_len, pt_len, aad_len, tag, boundary: false, empty_bundle: false, sequence: false, odd_identity: false, errors: false, rng_is_recipient: false });
                        if (pt_len, aad_len) == shapes_first {
                            v.push(Case { suite, mode, info_len, pt_len: 9, aad_len: 1, tag, boundary: false, empty_bundle: false, sequence: true, odd_identity: false, errors: false, rng_is_recipient: false });
                            if mode.has_auth() {
                                v.push(Case { suite, mode, info_len, pt_len: 9, aad_len: 1, tag, boundary: false, empty_bundle: false, sequence: false, odd_identity: true, errors: false, rng_is_recipient: false });
                            }
                        }
                        if mode.has_psk() && (pt_len, aad_len) == shapes_first {
                            // the empty bundle is a legal PSK-mode input of this crate (C15)
                            v.push(Case { suite, mode, info_len, pt_len: 7, aad_len: 2, tag, boundary: false, empty_bundle: true, sequence: false, odd_identity: false, errors: false, rng_is_recipient: false });
                        }
                        if mode == Mode::Base && (pt_len, aad_len) == shapes_first && (t || suite.kdf == suite.kem.kdf()) {
                            v.push(Case { suite, mode, info_len, pt_len: 5, aad_len: 3, tag, boundary: true, empty_bundle: false, sequence: false, odd_identity: false, errors: false, rng_is_recipient: false });
                        }
                    }
                }
            }
        }
        for suite in crate::suites::all_suites() {
            if suite.kem == Kem::X25519 || !suite.aead.can_seal() {
                for mode in MODES {
                    tag += 1;
                    v.push(Case { suite, mode, info_len: 6, pt_len: 11, aad_len: 2, tag, boundary: false, empty_bundle: false, sequence: false, odd_identity: false, errors: true, rng_is_recipient: false });
                }
            }
        }
        v
    }
    fn run(&self, cfg: &Cfg, c: &Case) -> CaseOut {
        let mut out = CaseOut::new();
        out.nontrivial = true;
        out.outcome = format!("{:?}/{}{}", c.mode, c.suite.aead.name(), if c.errors { "/errors" } else { "" });
        if c.errors {
            error_case(&mut out, cfg, c);
            return out;
        }
        let ops = suite_ops(c.suite);
        let k = keys(c.suite.kem, c.tag, cfg.seed);
        let info = bytes(Fill::Mix, c.info_len, 10, cfg.seed);
        let mut k = k;
        if c.rng_is_recipient {
            k.ikm_e = bytes(Fill::Mix, c.suite.kem.nsk(), c.tag.wrapping_mul(3) + 1, cfg.seed);
        }
        if c.odd_identity {
            // the public half of another key pair
            k.pk_s = keys(c.suite.kem, c.tag + 77, cfg.seed).pk_s;
        }
        // (PSK lengths rotate through short and long values: nothing in the single-shot forms may depend on them)
        let psk_len = [32usize, 1, 16, 31, 33, 100][(c.tag % 6) as usize];
        let m = if c.empty_bundle { mode_spec(c.mode, &k, b"", b"") } else { mode_spec(c.mode, &k, &bytes(Fill::Mix, psk_len, 11, cfg.seed), &bytes(Fill::Mix, 22, 12, cfg.seed)) };
        let pt = bytes(Fill::Mix, c.pt_len, 140, cfg.seed);
        let aad = bytes(Fill::Mix, c.aad_len, 141, cfg.seed);
        let nt = c.suite.aead.nt();
        // the script is longer than needed so that an over-draw shows up in the log comparison
        let script = [&k.ikm_e[..], &bytes(Fill::Mix, 64, 142, cfg.seed)[..]].concat();

        if c.boundary {
            boundary_case(&mut out, cfg, c, ops.as_ref(), &k, &m, &info);
            return out;
        }
        if c.sequence {
            sequence_case(&mut out, c, ops.as_ref(), &k, &m, &info);
            return out;
        }
        // R1's expectation
        let want = r1_setup_s(c.suite, &m, &k.pk_r, &info, &k.ikm_e).map(|(enc, mut ctx)| (enc, ctx.seal(&aad, &pt).unwrap()));
        let (enc_ref, ct_ref) = match want {
            Some(x) => x,
            None => {
                out.fail_machinery("R1 setup failed");
                return out;
            }
        };
        // (with an empty bundle R1's bytes are what the RFC formulas give if VerifyPSKInputs is skipped; the
        // crate documents exactly that behaviour, so they are still the reference for composed == single-shot)

        // ---- sealing: composed ----
        let mut rng_c = ScriptRng::new(&script);
        let composed = ops.setup_sender(&m, &k.pk_r, &info, &mut rng_c).map(|(enc, mut s)| (enc, s.seal(&pt, &aad)));
        let mut rng_ci = ScriptRng::new(&script);
        let composed_ip = ops.setup_sender(&m, &k.pk_r, &info, &mut rng_ci).map(|(enc, mut s)| {
            let mut b = pt.clone();
            let t = s.seal_ip(&mut b, &aad);
            (enc, b, t)
        });
        // ---- sealing: single shot ----
        let mut rng_s = ScriptRng::new(&script);
        let ss = ops.single_shot_seal(&m, &k.pk_r, &info, &pt, &aad, &mut rng_s);
        let mut rng_si = ScriptRng::new(&script);
        let mut buf_si = pt.clone();
        let ssi = ops.single_shot_seal_ip(&m, &k.pk_r, &info, &mut buf_si, &aad, &mut rng_si);

        out.transitions += 4;
        match (&composed, &ss) {
            (Obs::Ok((enc, Obs::Ok(ct))), Obs::Ok((enc2, ct2))) => {
                if enc != enc2 || ct != ct2 {
                    out.fail("single_shot_seal differs from setup_sender + seal with the same randomness");
                }
                if *enc != enc_ref || *ct != ct_ref {
                    out.fail("setup_sender + seal differs from R1");
                }
                if ct.len() != pt.len() + nt {
                    out.fail("ciphertext length != plaintext length + Nt");
                }
            }
            (a, b) => out.fail(format!("sealing failed: composed {} single-shot {}", a.as_ref().map(|_| ()).class(), b.as_ref().map(|_| ()).class())),
        }
        // (the NUMBER of bytes drawn, not the pattern of calls that drew them: the results above already show that the
        // same bytes were used)
        if rng_c.drawn() != rng_s.drawn() {
            out.fail(format!("single_shot_seal draws {} bytes from the caller's RNG, setup_sender + seal draws {}", rng_s.drawn(), rng_c.drawn()));
        }
        match (&composed_ip, &ssi) {
            (Obs::Ok((enc, b, Obs::Ok(t))), Obs::Ok((enc2, t2))) => {
                if enc != enc2 || t != t2 || *b != buf_si {
                    out.fail("single_shot_seal_in_place_detached differs from setup_sender + seal_in_place_detached");
                }
                // the allocating form returns exactly the in-place ciphertext followed by the detached tag
                let mut cat = b.clone();
                cat.extend_from_slice(t);
                if cat != ct_ref {
                    out.fail("in-place ciphertext || detached tag differs from the allocating seal's output");
                }
                if b.len() != pt.len() || t.len() != nt {
                    out.fail("in-place seal changed the buffer length or returned a tag of the wrong size");
                }
            }
            (a, b) => out.fail(format!("in-place sealing failed: composed {} single-shot {}", a.as_ref().map(|_| ()).class(), b.as_ref().map(|_| ()).class())),
        }
        if rng_ci.drawn() != rng_si.drawn() {
            out.fail("RNG draw log differs between composed and single-shot in-place sealing");
        }

        if c.odd_identity {
            // an inconsistent identity pair cannot be authenticated by anybody: only the sealing side is compared
            return out;
        }
        // ---- opening: the valid message and every failure class ----
        let body = ct_ref[..ct_ref.len() - nt].to_vec();
        let tag = ct_ref[ct_ref.len() - nt..].to_vec();
        let mut wires: Vec<(String, Vec<u8>, Vec<u8>)> = vec![("valid".into(), ct_ref.clone(), aad.clone())];
        for l in 0..(nt + 2).min(ct_ref.len()) {
            wires.push((format!("truncated to {}", l), ct_ref[..l].to_vec(), aad.clone()));
        }
        let mut w = ct_ref.clone();
        w.push(0);
        wires.push(("extended by 00".into(), w, aad.clone()));
        let mut w = ct_ref.clone();
        let l = w.len();
        w[l - 1] ^= 1;
        wires.push(("last tag bit flipped".into(), w, aad.clone()));
        let mut w = ct_ref.clone();
        w[0] ^= 0x80;
        wires.push(("first bit flipped".into(), w, aad.clone()));
        wires.push(("wrong aad".into(), ct_ref.clone(), [&aad[..], &[1]].concat()));
        let mut encs: Vec<(String, Vec<u8>)> = vec![("valid enc".into(), enc_ref.clone())];
        if c.suite.kem == Kem::X25519 {
            for (i, e) in super::c10::small_order_encodings().into_iter().enumerate() {
                if (i + c.tag as usize) % 5 == 0 || c.pt_len == 0 {
                    encs.push((format!("small-order enc #{}", i), e));
                }
            }
        } else if let Some(ne) = c.suite.kem.neg_pk(&enc_ref) {
            encs.push(("-enc".into(), ne));
        }
        for (ew, enc) in &encs {
            for (ww, wire, a) in &wires {
                out.transitions += 1;
                let composed: Obs<Vec<u8>> = match ops.setup_receiver(&m, &k.sk_r, enc, &info) {
                    Obs::Ok(mut r) => r.open(wire, a),
                    Obs::Err(e) => Obs::Err(e),
                    Obs::Pre(e) => Obs::Pre(e),
                    Obs::Panic(s) => Obs::Panic(s),
                };
                let single = ops.single_shot_open(&m, &k.sk_r, enc, &info, wire, a);
                if composed != single {
                    out.fail(format!("single_shot_open != setup_receiver + open for [{}; {}]: composed {:?} single-shot {:?}", ew, ww, composed.as_ref().map(|_| "bytes"), single.as_ref().map(|_| "bytes")));
                }
                if ew == "valid enc" && ww == "valid" && composed != Obs::Ok(pt.clone()) {
                    out.fail(format!("the valid message does not open: {}", composed.class()));
                }
                // detached forms, for every wire that can be split into body || tag
                if wire.len() >= nt {
                    let (b0, t0) = wire.split_at(wire.len() - nt);
                    let composed_ip: Obs<Vec<u8>> = match ops.setup_receiver(&m, &k.sk_r, enc, &info) {
                        Obs::Ok(mut r) => {
                            let mut b = b0.to_vec();
                            r.open_ip(&mut b, a, t0).map(|_| b.clone())
                        }
                        Obs::Err(e) => Obs::Err(e),
                        Obs::Pre(e) => Obs::Pre(e),
                        Obs::Panic(s) => Obs::Panic(s),
                    };
                    let mut b = b0.to_vec();
                    let single_ip = ops.single_shot_open_ip(&m, &k.sk_r, enc, &info, &mut b, a, t0).map(|_| b.clone());
                    out.transitions += 2;
                    if composed_ip != single_ip {
                        out.fail(format!("single_shot_open_in_place_detached != setup_receiver + open_in_place_detached for [{}; {}]: {} vs {}", ew, ww, composed_ip.class(), single_ip.class()));
                    }
                    // the allocating open accepts exactly what the in-place open accepts for the same split
                    if composed_ip != composed {
                        out.fail(format!("open(ct||tag) and open_in_place_detached(ct, tag) disagree for [{}; {}]: {} vs {}", ew, ww, composed.class(), composed_ip.class()));
                    }
                } else if ew == "valid enc" {
                    // shorter than a tag: certainly not valid
                    if composed != Obs::Err(HpkeError::OpenError) {
                        out.fail(format!("open of {} bytes (< Nt): {} want Err(OpenError)", wire.len(), composed.class()));
                    }
                }
            }
        }
        let _ = (body, tag, Aead::ExportOnly);
        out
    }
}

/// one receiver opens a sequence through open() only, another through open_in_place_detached() only
fn sequence_case(out: &mut CaseOut, c: &Case, ops: &dyn crate::suites::SuiteOps, k: &Keys, m: &crate::suites::ModeSpec, info: &[u8]) {
    let nt = c.suite.aead.nt();
    let (enc, mut refctx) = match r1_setup_s(c.suite, m, &k.pk_r, info, &k.ikm_e) {
        Some(x) => x,
        None => {
            out.fail_machinery("R1 setup failed");
            return;
        }
    };
    let (mut ra, mut rb) = match (ops.setup_receiver(m, &k.sk_r, &enc, info), ops.setup_receiver(m, &k.sk_r, &enc, info)) {
        (Obs::Ok(a), Obs::Ok(b)) => (a, b),
        _ => {
            out.fail("setup_receiver failed");
            return;
        }
    };
    // plaintext lengths: 9, 0 (empty), 0, 17, 0, 1
    for (i, pl) in [9usize, 0, 0, 17, 0, 1].into_iter().enumerate() {
        let pt = vec![i as u8 + 1; pl];
        let aad = vec![0xa0 + i as u8; i % 3];
        let ct = refctx.seal(&aad, &pt).unwrap();
        // before every second genuine message each receiver is handed a corrupted copy through ITS form: both forms must
        // reject it and be exactly where they were
        if i % 2 == 1 {
            let mut bad = ct.clone();
            let l = bad.len();
            bad[l - 1] ^= 0x20;
            let ja = ra.open(&bad, &aad).map(|_| ());
            let mut jb_buf = bad[..l - nt].to_vec();
            let jb = rb.open_ip(&mut jb_buf, &aad, &bad[l - nt..]);
            out.transitions += 2;
            if ja != Obs::Err(HpkeError::OpenError) || jb != Obs::Err(HpkeError::OpenError) {
                out.fail(format!("corrupted copy of message #{}: open() gives {}, open_in_place_detached() gives {}, both should be Err(OpenError)", i, ja.class(), jb.class()));
            }
        }
        let a = ra.open(&ct, &aad);
        let (body, tag) = ct.split_at(ct.len() - nt);
        let mut buf = body.to_vec();
        let b = rb.open_ip(&mut buf, &aad, tag).map(|_| buf.clone());
        out.transitions += 2;
        if a != Obs::Ok(pt.clone()) || b != Obs::Ok(pt.clone()) {
            out.fail(format!("message #{} (|pt| = {}) of a sequence: open() gives {}, open_in_place_detached() gives {}, both should return the plaintext", i, pl, a.class(), b.class()));
            return;
        }
        if crate::suites::HOOKS && ra.seq_state() != rb.seq_state() {
            out.fail(format!("after message #{} (|pt| = {}) the allocating receiver is at {:?} and the in-place receiver at {:?}", i, pl, ra.seq_state(), rb.seq_state()));
            return;
        }
    }
}

/// Ok(bytes) / Err(kind) / "panic" - the observable class of a call, with the bytes where there are any
fn norm<T: Clone + Into<Vec<u8>>>(o: &Obs<T>) -> String {
    match o {
        Obs::Ok(v) => format!("Ok({})", crate::obs::hx(&v.clone().into())),
        Obs::Err(e) => format!("Err({:?})", e),
        Obs::Pre(e) => format!("Pre({:?})", e),
        Obs::Panic(_) => "panic".into(),
    }
}

/// single-shot == composed on the error side (see `Case::errors`)
fn error_case(out: &mut CaseOut, cfg: &Cfg, c: &Case) {
    let ops = suite_ops(c.suite);
    let k = keys(c.suite.kem, c.tag, cfg.seed);
    let info = bytes(Fill::Mix, c.info_len, 10, cfg.seed);
    let m = mode_spec(c.mode, &k, &bytes(Fill::Mix, 32, 11, cfg.seed), &bytes(Fill::Mix, 22, 12, cfg.seed));
    let pt = bytes(Fill::Mix, c.pt_len, 140, cfg.seed);
    let aad = bytes(Fill::Mix, c.aad_len, 141, cfg.seed);
    let nt = c.suite.aead.nt().max(16);
    let mut pks: Vec<(String, Vec<u8>)> = vec![("valid recipient key".into(), k.pk_r.clone())];
    if c.suite.kem == Kem::X25519 {
        for (i, e) in super::c10::small_order_encodings().into_iter().enumerate() {
            pks.push((format!("small-order key #{}", i), e));
        }
    }
    let expect_encap_err = |name: &str| name != "valid recipient key";
    for (name, pk) in &pks {
        // ---- the four sealing forms ----
        let composed = match ops.setup_sender(&m, pk, &info, &mut ScriptRng::new(&k.ikm_e)) {
            Obs::Ok((enc, mut s)) => s.seal(&pt, &aad).map(|ct| [enc.clone(), ct].concat()),
            Obs::Err(e) => Obs::Err(e),
            Obs::Pre(e) => Obs::Pre(e),
            Obs::Panic(p) => Obs::Panic(p),
        };
        let single = ops.single_shot_seal(&m, pk, &info, &pt, &aad, &mut ScriptRng::new(&k.ikm_e)).map(|(enc, ct)| [enc, ct].concat());
        let composed_ip = match ops.setup_sender(&m, pk, &info, &mut ScriptRng::new(&k.ikm_e)) {
            Obs::Ok((enc, mut s)) => {
                let mut b = pt.clone();
                s.seal_ip(&mut b, &aad).map(|t| [enc.clone(), b.clone(), t].concat())
            }
            Obs::Err(e) => Obs::Err(e),
            Obs::Pre(e) => Obs::Pre(e),
            Obs::Panic(p) => Obs::Panic(p),
        };
        let mut b = pt.clone();
        let single_ip = ops.single_shot_seal_ip(&m, pk, &info, &mut b, &aad, &mut ScriptRng::new(&k.ikm_e)).map(|(enc, t)| [enc, b.clone(), t].concat());
        out.transitions += 4;
        if norm(&composed) != norm(&single) {
            out.fail(format!("single_shot_seal != setup_sender + seal for [{}]: composed {} single-shot {}", name, norm(&composed), norm(&single)));
        }
        if norm(&composed_ip) != norm(&single_ip) {
            out.fail(format!("single_shot_seal_in_place_detached != setup_sender + seal_in_place_detached for [{}]: composed {} single-shot {}", name, norm(&composed_ip), norm(&single_ip)));
        }
        if expect_encap_err(name) && composed != Obs::Err(HpkeError::EncapError) {
            out.fail(format!("setup_sender to [{}]: {} want Err(EncapError)", name, norm(&composed)));
        }
        if !expect_encap_err(name) && !c.suite.aead.can_seal() && !matches!(composed, Obs::Panic(_)) {
            out.fail(format!("export-only suite: setup_sender + seal returned {} instead of panicking", norm(&composed)));
        }
        // ---- the four opening forms, with the same bytes as encapsulated key ----
        let enc = if expect_encap_err(name) { pk.clone() } else { r1_setup_s(c.suite, &m, &k.pk_r, &info, &k.ikm_e).map(|x| x.0).unwrap_or_else(|| k.pk_s.clone()) };
        for wire in [vec![0x5au8; nt + 9], vec![0u8; nt], vec![1u8; nt - 1], vec![]] {
            let composed = match ops.setup_receiver(&m, &k.sk_r, &enc, &info) {
                Obs::Ok(mut r) => r.open(&wire, &aad),
                Obs::Err(e) => Obs::Err(e),
                Obs::Pre(e) => Obs::Pre(e),
                Obs::Panic(p) => Obs::Panic(p),
            };
            let single = ops.single_shot_open(&m, &k.sk_r, &enc, &info, &wire, &aad);
            out.transitions += 2;
            if norm(&composed) != norm(&single) {
                out.fail(format!("single_shot_open != setup_receiver + open for [enc = {}; {} bytes]: composed {} single-shot {}", name, wire.len(), norm(&composed), norm(&single)));
            }
            if expect_encap_err(name) && composed != Obs::Err(HpkeError::DecapError) {
                out.fail(format!("setup_receiver with [enc = {}]: {} want Err(DecapError)", name, norm(&composed)));
            }
            let ntr = c.suite.aead.nt();
            if wire.len() >= ntr {
                let (b0, t0) = wire.split_at(wire.len() - ntr);
                let composed_ip = match ops.setup_receiver(&m, &k.sk_r, &enc, &info) {
                    Obs::Ok(mut r) => {
                        let mut b = b0.to_vec();
                        r.open_ip(&mut b, &aad, t0).map(|_| b.clone())
                    }
                    Obs::Err(e) => Obs::Err(e),
                    Obs::Pre(e) => Obs::Pre(e),
                    Obs::Panic(p) => Obs::Panic(p),
                };
                let mut b = b0.to_vec();
                let single_ip = ops.single_shot_open_ip(&m, &k.sk_r, &enc, &info, &mut b, &aad, t0).map(|_| b.clone());
                out.transitions += 2;
                if norm(&composed_ip) != norm(&single_ip) {
                    out.fail(format!("single_shot_open_in_place_detached != setup_receiver + open_in_place_detached for [enc = {}; {} bytes]: composed {} single-shot {}", name, wire.len(), norm(&composed_ip), norm(&single_ip)));
                }
            }
        }
    }
}

/// allocating vs in-place forms on contexts at the last sequence number and after exhaustion: the two
/// forms must agree on every delivery (and with R1 / the message limit)
fn boundary_case(out: &mut CaseOut, _cfg: &Cfg, c: &Case, ops: &dyn crate::suites::SuiteOps, k: &Keys, m: &crate::suites::ModeSpec, info: &[u8]) {
    if !crate::suites::HOOKS {
        return;
    }
    let nt = c.suite.aead.nt();
    let (enc, refctx) = match r1_setup_s(c.suite, m, &k.pk_r, info, &k.ikm_e) {
        Some(x) => x,
        None => {
            out.fail_machinery("R1 setup failed");
            return;
        }
    };
    let last = u64::MAX as u128;
    let msg = |seq: u128, tagb: u8| -> (Vec<u8>, Vec<u8>, Vec<u8>) {
        let pt = vec![tagb; 5];
        let aad = vec![tagb ^ 0xff; 3];
        let ct = refctx.seal_at(seq, &aad, &pt);
        (pt, aad, ct)
    };
    let m_last = msg(last, 1);
    let m_prev = msg(last - 1, 2);
    // deliveries: (name, wire, aad)
    let mut garbage = m_last.2.clone();
    garbage[0] ^= 1;
    let deliveries: Vec<(&str, Vec<u8>, Vec<u8>)> = vec![
        ("message of the previous position", m_prev.2.clone(), m_prev.1.clone()),
        ("tampered last message", garbage, m_last.1.clone()),
        ("last message", m_last.2.clone(), m_last.1.clone()),
        ("replay of the last message", m_last.2.clone(), m_last.1.clone()),
        ("message of the previous position again", m_prev.2.clone(), m_prev.1.clone()),
        ("zeros", vec![0u8; 16 + 4], vec![]),
    ];
    let (mut ra, mut rb) = match (ops.setup_receiver(m, &k.sk_r, &enc, info), ops.setup_receiver(m, &k.sk_r, &enc, info)) {
        (Obs::Ok(a), Obs::Ok(b)) => (a, b),
        _ => {
            out.fail("setup_receiver failed");
            return;
        }
    };
    ra.set_seq(u64::MAX);
    rb.set_seq(u64::MAX);
    for (i, (name, wire, aad)) in deliveries.iter().enumerate() {
        let a = ra.open(wire, aad);
        let (body, tag) = wire.split_at(wire.len() - nt);
        let mut buf = body.to_vec();
        let b = rb.open_ip(&mut buf, aad, tag).map(|_| buf.clone());
        out.transitions += 2;
        // expectation: deliveries 0,1 rejected; 2 accepted; from then on the context is exhausted
        let want: Obs<Vec<u8>> = match i {
            0 | 1 => Obs::Err(HpkeError::OpenError),
            2 => Obs::Ok(m_last.0.clone()),
            _ => Obs::Err(HpkeError::MessageLimitReached),
        };
        if a != b {
            out.fail(format!("at the end of the sequence space, delivery '{}': open() gives {} but open_in_place_detached() gives {}", name, a.class(), b.class()));
        }
        if a != want {
            out.fail(format!("at the end of the sequence space, delivery '{}': open() gives {} want {}", name, a.class(), want.class()));
        }
        if ra.seq_state() != rb.seq_state() {
            out.fail(format!("after delivery '{}' the two receivers are in different states {:?} vs {:?}", name, ra.seq_state(), rb.seq_state()));
        }
    }
    // sender: seal vs seal_in_place_detached
    let mk = || -> Option<Box<dyn crate::suites::SCtx>> {
        let mut rng = ScriptRng::new(&k.ikm_e);
        ops.setup_sender(m, &k.pk_r, info, &mut rng).ok().map(|x| x.1)
    };
    // the two sealing forms at sequence numbers whose counter bytes all differ from one another
    if let (Some(mut sa), Some(mut sb)) = (mk(), mk()) {
        for p in [1u64 << 40, (1 << 40) | (2 << 8) | (3 << 16), 0x0102_0304_0506_0708, (1 << 56) | (7 << 48) | 9] {
            sa.set_seq(p);
            sb.set_seq(p);
            let (pt, aad, ct) = msg(p as u128, 9);
            let a = sa.seal(&pt, &aad);
            let mut buf = pt.clone();
            let b = sb.seal_ip(&mut buf, &aad).map(|t| [&buf[..], &t[..]].concat());
            out.transitions += 2;
            if a != b || a != Obs::Ok(ct) {
                out.fail(format!("at sequence number {:#x}: seal() gives {}, seal_in_place_detached() gives {} - both should be R1's ciphertext", p, a.class(), b.class()));
            }
        }
    }
    if let (Some(mut sa), Some(mut sb)) = (mk(), mk()) {
        sa.set_seq(u64::MAX - 1);
        sb.set_seq(u64::MAX - 1);
        for i in 0..4u128 {
            let seq = last - 1 + i;
            let (pt, aad, ct) = msg(seq.min(last), 7);
            let a = sa.seal(&pt, &aad);
            let mut buf = pt.clone();
            let b = sb.seal_ip(&mut buf, &aad).map(|t| [&buf[..], &t[..]].concat());
            out.transitions += 2;
            let want: Obs<Vec<u8>> = if seq <= last { Obs::Ok(ct) } else { Obs::Err(HpkeError::MessageLimitReached) };
            if a != b || a != want {
                out.fail(format!("sealing at sequence {:#x}: seal() {} / seal_in_place_detached() {} / expected {}", seq, a.class(), b.class(), want.class()));
            }
            if seq > last && buf != pt {
                out.fail("seal_in_place_detached modified the buffer although the message limit was reached");
            }
        }
    } else {
        out.fail("setup_sender failed");
    }
}

// ------------------------------------------------------------------------------------------------
// C15
// ------------------------------------------------------------------------------------------------

#[derive(Clone, Debug, Serialize, Deserialize)]
pub enum Case15 {
    /// PskBundle::new over a block of (psk length, psk_id length) pairs
    Bundle { psk_len: usize, fill: Fill },
    /// PskBundle::new where every byte of psk / psk_id is the value `b` (the rule is about emptiness,
    /// never about content: 00, whitespace, ff ... are ordinary bytes)
    BundleBytes { b: u8 },
    /// the bundle's key and identifier are what enters the key schedule (vs R1), also with psk/psk_id
    /// of different lengths so that a swap is visible
    Schedule { suite: SuiteId, mode: Mode, psk_len: usize, psk_id_len: usize, tag: u64 },
    /// ALL sequences of up to `depth` sessions that start with `first`, over an alphabet of modes and bundles whose
    /// keys and identifiers are prefixes of one another, run one after the other on ONE thread with ONE suite:
    /// what enters the key schedule is the bundle of THIS session (or the empty defaults), whatever came before
    History { suite: SuiteId, first: u8, depth: u8 },
}

/// (mode, psk, psk_id) alphabet of `Case15::History`
pub fn history_alphabet() -> Vec<(Mode, &'static [u8], &'static [u8])> {
    vec![
        (Mode::Base, b"", b""),
        (Mode::Auth, b"", b""),
        (Mode::Psk, b"0123456789abcdef0123456789abcdef-k1", b"tenant-7/2026-10"),
        (Mode::Psk, b"0123456789abcdef0123456789abcdef-k1", b"tenant-7"),
        (Mode::Psk, b"0123456789abcdef0123456789abcdef", b"tenant-7"),
        (Mode::AuthPsk, b"0123456789abcdef0123456789abcdef-k1", b"tenant-7/2026-10"),
        (Mode::Psk, b"", b""),
        (Mode::AuthPsk, b"0123456789abcdef0123456789abcdef-k1", b"t"),
    ]
}

pub struct C15;

impl Part for C15 {
    type Case = Case15;
    fn name(&self) -> String {
        "E1-psk-bundle".into()
    }
    fn rule(&self) -> String {
        "PskBundle::new for ALL (|psk|, |psk_id|) in [0, L]^2 x fills: Ok iff both empty or both non-empty, else exactly InvalidPskBundle (observed through setup in Psk mode, which is how a bundle is used); key-schedule use: Psk/AuthPsk with psk != psk_id and different lengths vs R1 (a swap, a truncation or a dropped id changes every output), Base/Auth vs R1 with the empty defaults even when PSK bytes are lying around; session HISTORIES: every sequence of sessions over an alphabet of modes and bundles with prefix-related keys and identifiers (and the empty bundle), run on one thread with one suite, the last session's sender and receiver exports compared with R1; non-trivial = every case".into()
    }
    fn bound(&self, cfg: &Cfg) -> String {
        if cfg.tier.thorough() { "L = 80 x 3 fills (19683 pairs); 48 suites x 4 modes x 6 (psk, psk_id) length pairs; all session histories of length <= 3 (4 for 3 suites) over an 8-letter mode/bundle alphabet for 24 suites".into() } else { "L = 40 x 2 fills (3362 pairs); 12 suites x 4 modes x 4 length pairs; all session histories of length <= 3 over an 8-letter mode/bundle alphabet for 3 suites".into() }
    }
    fn enumerate(&self, cfg: &Cfg) -> Vec<Case15> {
        let t = cfg.tier.thorough();
        let mut v = vec![];
        let l = if t { 80 } else { 40 };
        let psk_lens: Vec<usize> = (0..=l).chain([255usize, 256, 257, 511, 512, 513, 1024, 65535, 65536, 65537]).collect();
        for psk_len in psk_lens {
            for fill in if t { vec![Fill::Zero, Fill::Ones, Fill::Mix] } else { vec![Fill::Zero, Fill::Mix] } {
                v.push(Case15::Bundle { psk_len, fill });
            }
        }
        for b in 0..=255u8 {
            v.push(Case15::BundleBytes { b });
        }
        let mut tag = 15000;
        for suite in crate::suites::all_suites() {
            if !t && suite.aead != Aead::ChaCha20Poly1305 {
                continue;
            }
            for mode in MODES {
                let shapes: Vec<(usize, usize)> = if t { vec![(32, 22), (1, 2), (32, 16), (64, 65), (129, 300), (300, 1)] } else { vec![(32, 22), (1, 2), (65, 64), (300, 1)] };
                for (psk_len, psk_id_len) in shapes {
                    tag += 1;
                    v.push(Case15::Schedule { suite, mode, psk_len, psk_id_len, tag });
                }
            }
        }
        for suite in crate::suites::all_suites() {
            let quick_set = matches!((suite.kem, suite.kdf, suite.aead), (Kem::X25519, crate::refmodel::Kdf::Sha256, Aead::ChaCha20Poly1305) | (Kem::P256, crate::refmodel::Kdf::Sha512, Aead::Aes128Gcm) | (Kem::X25519, crate::refmodel::Kdf::Sha384, Aead::ExportOnly));
            let thorough_set = matches!(suite.kem, Kem::X25519 | Kem::P256) && suite.aead != Aead::Aes256Gcm;
            if quick_set || (t && thorough_set) {
                for first in 0..history_alphabet().len() as u8 {
                    v.push(Case15::History { suite, first, depth: if t && quick_set { 4 } else { 3 } });
                }
            }
        }
        v
    }
    fn run(&self, cfg: &Cfg, c: &Case15) -> CaseOut {
        let mut out = CaseOut::new();
        out.nontrivial = true;
        match c {
            Case15::Bundle { psk_len, fill } => {
                out.outcome = "bundle".into();
                let max = if cfg.tier.thorough() { 80 } else { 40 };
                let suite = SuiteId { kem: Kem::X25519, kdf: crate::refmodel::Kdf::Sha256, aead: Aead::ExportOnly };
                let ops = suite_ops(suite);
                let k = keys(Kem::X25519, 15_999, cfg.seed);
                // every length up to max, plus the lengths where a narrowing cast of the length would wrap
                let id_lens: Vec<usize> = (0..=max).chain([255usize, 256, 257, 511, 512, 513, 1024, 65535, 65536, 65537]).collect();
                for id_len in id_lens {
                    let psk = bytes(*fill, *psk_len, 1, cfg.seed);
                    let psk_id = bytes(*fill, id_len, 2, cfg.seed);
                    let m = crate::suites::ModeSpec { kind: 1, psk: psk.clone(), psk_id: psk_id.clone(), sk_s: vec![], pk_s: vec![] };
                    let mut rng = ScriptRng::new(&k.ikm_e);
                    let got = ops.setup_sender(&m, &k.pk_r, b"", &mut rng).map(|_| ());
                    out.transitions += 1;
                    let valid = (*psk_len == 0) == (id_len == 0);
                    let ok = if valid { got == Obs::Ok(()) } else { got == Obs::Pre(HpkeError::InvalidPskBundle) };
                    if !ok {
                        out.fail(format!("PskBundle::new(|psk|={}, |psk_id|={}, fill {:?}): got {} want {}", psk_len, id_len, fill, got.class(), if valid { "Ok" } else { "Err(InvalidPskBundle)" }));
                    }
                }
            }
            Case15::BundleBytes { b } => {
                out.outcome = "bundle-bytes".into();
                let suite = SuiteId { kem: Kem::X25519, kdf: crate::refmodel::Kdf::Sha256, aead: Aead::ExportOnly };
                let ops = suite_ops(suite);
                let k = keys(Kem::X25519, 15_998, cfg.seed);
                for (pl, il) in [(0usize, 0usize), (0, 1), (1, 0), (1, 1), (0, 3), (3, 0), (2, 3), (3, 1), (16, 2), (2, 16)] {
                    for variant in 0..3 {
                        // all bytes b / psk bytes b and id ordinary / id bytes b and psk ordinary
                        let psk = if variant == 2 { bytes(Fill::Ramp, pl, 1, 7) } else { vec![*b; pl] };
                        let psk_id = if variant == 1 { bytes(Fill::Ramp, il, 2, 9) } else { vec![*b; il] };
                        let m = crate::suites::ModeSpec { kind: 1, psk, psk_id, sk_s: vec![], pk_s: vec![] };
                        let mut rng = ScriptRng::new(&k.ikm_e);
                        let got = ops.setup_sender(&m, &k.pk_r, b"", &mut rng).map(|_| ());
                        out.transitions += 1;
                        let valid = (pl == 0) == (il == 0);
                        let ok = if valid { got == Obs::Ok(()) } else { got == Obs::Pre(HpkeError::InvalidPskBundle) };
                        if !ok {
                            out.fail(format!("PskBundle::new(|psk|={}, |psk_id|={}) with byte value {:#04x} (variant {}): got {} want {}", pl, il, b, variant, got.class(), if valid { "Ok" } else { "Err(InvalidPskBundle)" }));
                        }
                    }
                }
            }
            Case15::History { suite, first, depth } => {
                out.outcome = "history".into();
                let ops = suite_ops(*suite);
                let alpha = history_alphabet();
                let k = keys(suite.kem, 15_700, cfg.seed);
                // the info string EQUALS the psk_id of two letters ("tenant-7") - and, second pass, is empty like the default
                // psk_id: the two strings are independent inputs, and nothing may key on their being equal
                for info in [b"tenant-7".to_vec(), vec![]] {
                // R1's exports per letter (R1 has no state at all)
                let mut refs = vec![];
                for (mode, psk, psk_id) in &alpha {
                    let m = mode_spec(*mode, &k, psk, psk_id);
                    match r1_setup_s(*suite, &m, &k.pk_r, &info, &k.ikm_e) {
                        Some((enc, ctx)) => refs.push((m, enc, ctx.export(b"c15h", 40).unwrap())),
                        None => {
                            out.fail_machinery("R1 setup failed");
                            return out;
                        }
                    }
                }
                let n = alpha.len();
                let mut stack: Vec<Vec<u8>> = vec![vec![*first]];
                while let Some(path) = stack.pop() {
                    // run the whole path from scratch: the earlier sessions ARE the history
                    for (i, &l) in path.iter().enumerate() {
                        let (m, enc, want) = &refs[l as usize];
                        let last = i + 1 == path.len();
                        let s = ops.setup_sender(m, &k.pk_r, &info, &mut ScriptRng::new(&k.ikm_e));
                        let r = ops.setup_receiver(m, &k.sk_r, enc, &info);
                        if !last {
                            continue; // compared when this prefix was the whole path
                        }
                        out.transitions += 2;
                        out.states += 1;
                        let names: Vec<String> = path.iter().map(|x| format!("{:?}(|psk|={},id={:?})", alpha[*x as usize].0, alpha[*x as usize].1.len(), String::from_utf8_lossy(alpha[*x as usize].2))).collect();
                        match s {
                            Obs::Ok((e, sc)) => {
                                if e != *enc || sc.export(b"c15h", 40) != Obs::Ok(want.clone()) {
                                    out.fail(format!("sessions [{}] one after the other on one thread: the LAST sender's export differs from R1 (what entered the key schedule is not this session's bundle / the empty defaults)", names.join(" ; ")));
                                }
                            }
                            o => out.fail(format!("sessions [{}]: last setup_sender: {}", names.join(" ; "), o.map(|_| ()).class())),
                        }
                        match r {
                            Obs::Ok(rc) => {
                                if rc.export(b"c15h", 40) != Obs::Ok(want.clone()) {
                                    out.fail(format!("sessions [{}] one after the other on one thread: the LAST receiver's export differs from R1", names.join(" ; ")));
                                }
                            }
                            o => out.fail(format!("sessions [{}]: last setup_receiver: {}", names.join(" ; "), o.map(|_| ()).class())),
                        }
                    }
                    if path.len() < *depth as usize && out.mismatches.len() < 10 {
                        for l in 0..n as u8 {
                            let mut q = path.clone();
                            q.push(l);
                            stack.push(q);
                        }
                    }
                }
                }
            }
            Case15::Schedule { suite, mode, psk_len, psk_id_len, tag } => {
                out.outcome = format!("schedule/{:?}", mode);
                let ops = suite_ops(*suite);
                let k = keys(suite.kem, *tag, cfg.seed);
                let info = bytes(Fill::Mix, 7, 10, cfg.seed);
                let psk = bytes(Fill::Mix, *psk_len, 11, cfg.seed);
                let psk_id = bytes(Fill::Ramp251, *psk_id_len, 12, cfg.seed);
                // R1 is told the mode's inputs per RFC: PSK data only in the PSK modes
                let m = mode_spec(*mode, &k, &psk, &psk_id);
                let (enc_ref, rctx) = match r1_setup_s(*suite, &m, &k.pk_r, &info, &k.ikm_e) {
                    Some(x) => x,
                    None => {
                        out.fail_machinery("R1 setup failed");
                        return out;
                    }
                };
                let mut rng = ScriptRng::new(&k.ikm_e);
                match ops.setup_sender(&m, &k.pk_r, &info, &mut rng).need("setup_sender") {
                    Ok((enc, s)) => {
                        out.check("enc equals R1's", enc == enc_ref);
                        for l in [1usize, 32, 65] {
                            expect_bytes(&mut out, &format!("sender export L={} (psk {} / psk_id {} bytes in mode {:?})", l, psk_len, psk_id_len, mode), &s.export(b"c15", l), &rctx.export(b"c15", l).unwrap());
                        }
                    }
                    Err(e) => out.fail(e),
                }
                match ops.setup_receiver(&m, &k.sk_r, &enc_ref, &info).need("setup_receiver") {
                    Ok(r) => {
                        expect_bytes(&mut out, &format!("receiver export (mode {:?})", mode), &r.export(b"c15", 48), &rctx.export(b"c15", 48).unwrap());
                    }
                    Err(e) => out.fail(e),
                }
                // the single-shot forms take the same bundle: what enters THEIR key schedule is visible in the ciphertext
                if suite.aead.can_seal() {
                    let mut rc = rctx.clone();
                    let ct = rc.seal(b"aad", b"c15 single shot").unwrap();
                    let nt = suite.aead.nt();
                    let mut rng = ScriptRng::new(&k.ikm_e);
                    expect_bytes(&mut out, &format!("single_shot_seal (psk {} / psk_id {} bytes in mode {:?})", psk_len, psk_id_len, mode), &ops.single_shot_seal(&m, &k.pk_r, &info, b"c15 single shot", b"aad", &mut rng).map(|x| x.1), &ct);
                    let mut rng = ScriptRng::new(&k.ikm_e);
                    let mut b = b"c15 single shot".to_vec();
                    let got = ops.single_shot_seal_ip(&m, &k.pk_r, &info, &mut b, b"aad", &mut rng).map(|x| [b.clone(), x.1].concat());
                    expect_bytes(&mut out, &format!("single_shot_seal_in_place_detached (mode {:?})", mode), &got, &ct);
                    expect_bytes(&mut out, &format!("single_shot_open (mode {:?})", mode), &ops.single_shot_open(&m, &k.sk_r, &enc_ref, &info, &ct, b"aad"), b"c15 single shot");
                    let mut b = ct[..ct.len() - nt].to_vec();
                    let got = ops.single_shot_open_ip(&m, &k.sk_r, &enc_ref, &info, &mut b, b"aad", &ct[ct.len() - nt..]).map(|_| b.clone());
                    expect_bytes(&mut out, &format!("single_shot_open_in_place_detached (mode {:?})", mode), &got, b"c15 single shot");
                }
                if mode.has_psk() {
                    // independence check of the oracle itself: swapping psk and psk_id changes R1's output
                    let mut sw = m.clone();
                    std::mem::swap(&mut sw.psk, &mut sw.psk_id);
                    if let Some((_, c2)) = r1_setup_s(*suite, &sw, &k.pk_r, &info, &k.ikm_e) {
                        out.check("R1: swapped psk/psk_id gives a different exporter secret (oracle is sensitive)", c2.exporter_secret != rctx.exporter_secret);
                    }
                }
            }
        }
        out
    }
}
