//! C16 - secrets are wiped on drop. Exploration of drop points: the context (or shared secret) is
//! moved into a heap slot pre-filled with 0xAA; before the drop the slot must contain the secrets
//! R1 predicts (non-vacuity), after `drop_in_place` it must not. With `--cfg hpke_verif` the drop
//! ledger additionally accounts for the stack temporaries inside setup.

use super::*;
use crate::engine::{Cfg, Part};
use crate::refmodel::{Mode, SuiteId, MODES};
use crate::rng::{bytes, Fill, ScriptRng};
use crate::suites::{all_suites, mode_r, mode_s, suite_ops, ModeSpec};
use hpke::{aead::Aead as AeadT, aead::AeadCtxR, aead::AeadCtxS, aead::AeadTag, kdf::Kdf as KdfT, kem::Kem as KemT, Deserializable, Serializable};
use serde::{Deserialize, Serialize};
use std::mem::MaybeUninit;

#[derive(Clone, Debug, Serialize, Deserialize, PartialEq, Eq)]
pub enum Op {
    /// seal one message (sender) / open the next R1-produced message (receiver)
    Msg,
    /// deliver a corrupted message (receiver) / no-op for the sender
    BadMsg,
    Export,
    /// jump to the last sequence number and use it up (needs the H1 hook; skipped without it)
    Exhaust,
    /// no operation; marks that the final drop happens WHILE A PANIC UNWINDS (std::thread::panicking() is true in it)
    Unwind,
}

#[derive(Clone, Debug, Serialize, Deserialize, PartialEq, Eq)]
pub enum What {
    SenderCtx,
    ReceiverCtx,
    EncapSecret,
    DecapSecret,
    /// a single-shot call (0 seal, 1 seal in place, 2 open, 3 open in place): there is no object to look at, but the
    /// drop ledger must show the same wipes as setup + one operation + drop of the context
    SingleShot(u8),
}

#[derive(Clone, Debug, Serialize, Deserialize)]
pub struct ProbeReq {
    pub what: What,
    pub mode: ModeSpec,
    pub sk_r: Vec<u8>,
    pub pk_r: Vec<u8>,
    pub enc: Vec<u8>,
    pub info: Vec<u8>,
    pub ikm_e: Vec<u8>,
    pub ops: Vec<Op>,
    /// R1-produced ciphertexts (ct||tag) with their aads, for the receiver
    pub cts: Vec<(Vec<u8>, Vec<u8>)>,
    /// named secrets that must be present before and absent after the drop
    pub needles: Vec<(String, Vec<u8>)>,
    /// byte offset inside a larger arena at which the object is placed (types of alignment 1 only)
    #[serde(default)]
    pub offset: usize,
}

#[derive(Clone, Debug, Default)]
pub struct ProbeOut {
    pub size: usize,
    pub before: Vec<(String, Vec<usize>)>,
    pub after: Vec<(String, Vec<usize>)>,
    /// offsets where the secret was before the drop and where every byte is zero after it
    pub wiped: Vec<(String, Vec<usize>)>,
    /// ledger delta around the setup call (guard on only): per kind (drops, dirty, nonempty drops)
    pub ledger_setup: Option<[(u64, u64, u64); 4]>,
    /// ledger delta around the final drop
    pub ledger_drop: Option<[(u64, u64, u64); 4]>,
    pub ops_done: usize,
}

fn find(h: &[u8], n: &[u8]) -> Vec<usize> {
    if n.is_empty() || h.len() < n.len() {
        return vec![];
    }
    (0..=h.len() - n.len()).filter(|&i| &h[i..i + n.len()] == n).collect()
}

#[cfg(hpke_verif)]
fn ledger() -> Option<[(u64, u64, u64); 4]> {
    Some(hpke::verif::ledger())
}
#[cfg(not(hpke_verif))]
fn ledger() -> Option<[(u64, u64, u64); 4]> {
    None
}
fn delta(a: Option<[(u64, u64, u64); 4]>, b: Option<[(u64, u64, u64); 4]>) -> Option<[(u64, u64, u64); 4]> {
    match (a, b) {
        (Some(a), Some(b)) => {
            let mut d = [(0, 0, 0); 4];
            for i in 0..4 {
                d[i] = (b[i].0 - a[i].0, b[i].1 - a[i].1, b[i].2 - a[i].2);
            }
            Some(d)
        }
        _ => None,
    }
}

/// Moves `v` into a fresh 0xAA-filled heap slot, lets `use_it` work on it in place, scans, drops in
/// place, scans again.
/// like slot_probe, but the object (alignment 1) sits at `offset` bytes into a 16-aligned arena
fn arena_probe<T>(v: T, needles: &[(String, Vec<u8>)], offset: usize) -> ProbeOut {
    assert_eq!(std::mem::align_of::<T>(), 1, "arena_probe is for byte-aligned types only");
    let n = std::mem::size_of::<T>();
    let mut arena: Vec<u128> = vec![0xAAAA_AAAA_AAAA_AAAA_AAAA_AAAA_AAAA_AAAAu128; (n + offset) / 16 + 2];
    let base = arena.as_mut_ptr() as *mut u8;
    // SAFETY: offset + n lies inside the arena; T has alignment 1
    let obj = unsafe { base.add(offset) as *mut T };
    unsafe { obj.write(v) };
    let snap = || -> Vec<u8> { (0..n).map(|i| unsafe { std::ptr::read_volatile((obj as *const u8).add(i)) }).collect() };
    let before = snap();
    let l0 = ledger();
    unsafe { std::ptr::drop_in_place(obj) };
    let l1 = ledger();
    let after = snap();
    ProbeOut {
        size: n,
        before: needles.iter().map(|(k, v)| (k.clone(), find(&before, v))).collect(),
        after: needles.iter().map(|(k, v)| (k.clone(), find(&after, v))).collect(),
        wiped: needles.iter().map(|(k, v)| (k.clone(), find(&before, v).into_iter().filter(|&o| after[o..o + v.len()].iter().all(|b| *b == 0)).collect())).collect(),
        ledger_setup: None,
        ledger_drop: delta(l0, l1),
        ops_done: 0,
    }
}

thread_local! {
    static DROP_WHILE_UNWINDING: std::cell::Cell<bool> = const { std::cell::Cell::new(false) };
}

fn slot_probe<T>(v: T, needles: &[(String, Vec<u8>)], use_it: impl FnOnce(&mut T) -> usize) -> ProbeOut {
    let n = std::mem::size_of::<T>();
    let mut slot: Box<MaybeUninit<T>> = Box::new(MaybeUninit::uninit());
    // SAFETY: the slot is n bytes of owned heap memory
    unsafe { std::ptr::write_bytes(slot.as_mut_ptr() as *mut u8, 0xAA, n) };
    slot.write(v);
    let p = slot.as_ptr() as *const u8;
    let snap = || -> Vec<u8> { (0..n).map(|i| unsafe { std::ptr::read_volatile(p.add(i)) }).collect() };
    let ops_done = use_it(unsafe { &mut *slot.as_mut_ptr() });
    let before = snap();
    let l0 = ledger();
    // SAFETY: the slot holds an initialised T that is dropped exactly once, here
    if DROP_WHILE_UNWINDING.with(|u| u.get()) {
        // the drop runs as part of a panic's unwinding (a guard object's destructor), as when a context is a local of a
        // function that panics
        struct G<T>(*mut T);
        impl<T> Drop for G<T> {
            fn drop(&mut self) {
                unsafe { std::ptr::drop_in_place(self.0) }
            }
        }
        let ptr = slot.as_mut_ptr();
        let _ = crate::obs::guard(|| -> Result<(), hpke::HpkeError> {
            let _g = G(ptr);
            panic!("drop probe: unwinding")
        });
    } else {
        unsafe { std::ptr::drop_in_place(slot.as_mut_ptr()) };
    }
    let l1 = ledger();
    let after = snap();
    ProbeOut {
        size: n,
        before: needles.iter().map(|(k, v)| (k.clone(), find(&before, v))).collect(),
        after: needles.iter().map(|(k, v)| (k.clone(), find(&after, v))).collect(),
        wiped: needles
            .iter()
            .map(|(k, v)| (k.clone(), find(&before, v).into_iter().filter(|&o| after[o..o + v.len()].iter().all(|b| *b == 0)).collect()))
            .collect(),
        ledger_setup: None,
        ledger_drop: delta(l0, l1),
        ops_done,
    }
}

pub fn drop_probe<A: AeadT, D: KdfT, K: KemT>(id: SuiteId, req: &ProbeReq) -> Result<ProbeOut, String> {
    DROP_WHILE_UNWINDING.with(|u| u.set(req.ops.contains(&Op::Unwind)));
    let r = drop_probe_inner::<A, D, K>(id, req);
    DROP_WHILE_UNWINDING.with(|u| u.set(false));
    r
}

fn drop_probe_inner<A: AeadT, D: KdfT, K: KemT>(id: SuiteId, req: &ProbeReq) -> Result<ProbeOut, String> {
    let e = |what: &str, e: hpke::HpkeError| format!("{}: {:?}", what, e);
    let can_seal = id.aead.can_seal();
    match req.what {
        What::SenderCtx => {
            let m = mode_s::<K>(&req.mode).map_err(|x| e("mode", x))?;
            let pk_r = K::PublicKey::from_bytes(&req.pk_r).map_err(|x| e("pk_r", x))?;
            let mut rng = ScriptRng::new(&req.ikm_e);
            let l0 = ledger();
            let (_enc, ctx) = hpke::setup_sender::<A, D, K, _>(&m, &pk_r, &req.info, &mut rng).map_err(|x| e("setup_sender", x))?;
            let l1 = ledger();
            let mut out = slot_probe::<AeadCtxS<A, D, K>>(ctx, &req.needles, |c| {
                let mut done = 0;
                for op in &req.ops {
                    match op {
                        Op::Msg | Op::BadMsg => {
                            if can_seal {
                                let _ = c.seal(b"drop probe message", b"aad");
                            }
                        }
                        Op::Export => {
                            let mut o = [0u8; 40];
                            let _ = c.export(b"ctx", &mut o);
                        }
                        Op::Exhaust => {
                            #[cfg(hpke_verif)]
                            if can_seal {
                                c.verif_set_seq(u64::MAX);
                                let _ = c.seal(b"last", b"");
                                let _ = c.seal(b"refused", b"");
                            }
                        }
                        Op::Unwind => {}
                    }
                    done += 1;
                }
                done
            });
            out.ledger_setup = delta(l0, l1);
            Ok(out)
        }
        What::ReceiverCtx => {
            let m = mode_r::<K>(&req.mode).map_err(|x| e("mode", x))?;
            let sk_r = K::PrivateKey::from_bytes(&req.sk_r).map_err(|x| e("sk_r", x))?;
            let enc = K::EncappedKey::from_bytes(&req.enc).map_err(|x| e("enc", x))?;
            let l0 = ledger();
            let ctx = hpke::setup_receiver::<A, D, K>(&m, &sk_r, &enc, &req.info).map_err(|x| e("setup_receiver", x))?;
            let l1 = ledger();
            let mut out = slot_probe::<AeadCtxR<A, D, K>>(ctx, &req.needles, |c| {
                let mut done = 0;
                let mut next = 0usize;
                for op in &req.ops {
                    match op {
                        Op::Msg => {
                            if can_seal && next < req.cts.len() {
                                let (ct, aad) = &req.cts[next];
                                if c.open(ct, aad).is_ok() {
                                    next += 1;
                                }
                            }
                        }
                        Op::BadMsg => {
                            if can_seal && next < req.cts.len() {
                                let (ct, aad) = &req.cts[next];
                                let mut bad = ct.clone();
                                if let Some(b) = bad.first_mut() {
                                    *b ^= 1;
                                }
                                let _ = c.open(&bad, aad);
                                let nt = AeadTag::<A>::size();
                                if ct.len() >= nt {
                                    let mut buf = ct[..ct.len() - nt].to_vec();
                                    let mut tag = ct[ct.len() - nt..].to_vec();
                                    tag[0] ^= 0x80;
                                    if let Ok(t) = AeadTag::<A>::from_bytes(&tag) {
                                        let _ = c.open_in_place_detached(&mut buf, aad, &t);
                                    }
                                }
                            }
                        }
                        Op::Export => {
                            let mut o = [0u8; 40];
                            let _ = c.export(b"ctx", &mut o);
                        }
                        Op::Exhaust => {
                            #[cfg(hpke_verif)]
                            if can_seal {
                                c.verif_set_seq(u64::MAX);
                                let _ = c.open(&[0u8; 40], b"");
                            }
                        }
                        Op::Unwind => {}
                    }
                    done += 1;
                }
                done
            });
            out.ledger_setup = delta(l0, l1);
            Ok(out)
        }
        What::EncapSecret => {
            let pk_r = K::PublicKey::from_bytes(&req.pk_r).map_err(|x| e("pk_r", x))?;
            let auth = if req.mode.mode().has_auth() {
                Some((
                    K::PrivateKey::from_bytes(&req.mode.sk_s).map_err(|x| e("sk_s", x))?,
                    K::PublicKey::from_bytes(&req.mode.pk_s).map_err(|x| e("pk_s", x))?,
                ))
            } else {
                None
            };
            let mut rng = ScriptRng::new(&req.ikm_e);
            let (ss, _enc) = K::encap(&pk_r, auth.as_ref().map(|(a, b)| (a, b)), &mut rng).map_err(|x| e("encap", x))?;
            if req.offset > 0 {
                return Ok(arena_probe(ss, &req.needles, req.offset));
            }
            Ok(slot_probe(ss, &req.needles, |_| 0))
        }
        What::SingleShot(form) => {
            if !can_seal {
                return Err("single-shot forms need a sealing AEAD".into());
            }
            let pk_r = K::PublicKey::from_bytes(&req.pk_r).map_err(|x| e("pk_r", x))?;
            let sk_r = K::PrivateKey::from_bytes(&req.sk_r).map_err(|x| e("sk_r", x))?;
            let enc = K::EncappedKey::from_bytes(&req.enc).map_err(|x| e("enc", x))?;
            let (ct, aad) = req.cts.first().cloned().ok_or("no R1 ciphertext")?;
            let nt = AeadTag::<A>::size();
            let tag = AeadTag::<A>::from_bytes(&ct[ct.len() - nt..]).map_err(|x| e("tag", x))?;
            let mut out = ProbeOut::default();
            // composed path first: setup, one operation, drop
            let l0 = ledger();
            if form < 2 {
                let m = mode_s::<K>(&req.mode).map_err(|x| e("mode", x))?;
                let mut rng = ScriptRng::new(&req.ikm_e);
                let (_enc, mut ctx) = hpke::setup_sender::<A, D, K, _>(&m, &pk_r, &req.info, &mut rng).map_err(|x| e("setup_sender", x))?;
                let _ = ctx.seal(b"single shot probe", b"aad").map_err(|x| e("seal", x))?;
                drop(ctx);
            } else {
                let m = mode_r::<K>(&req.mode).map_err(|x| e("mode", x))?;
                let mut ctx = hpke::setup_receiver::<A, D, K>(&m, &sk_r, &enc, &req.info).map_err(|x| e("setup_receiver", x))?;
                let _ = ctx.open(&ct, &aad).map_err(|x| e("open", x))?;
                drop(ctx);
            }
            let l1 = ledger();
            match form {
                0 => {
                    let m = mode_s::<K>(&req.mode).map_err(|x| e("mode", x))?;
                    let mut rng = ScriptRng::new(&req.ikm_e);
                    let _ = hpke::single_shot_seal::<A, D, K, _>(&m, &pk_r, &req.info, b"single shot probe", b"aad", &mut rng).map_err(|x| e("single_shot_seal", x))?;
                }
                1 => {
                    let m = mode_s::<K>(&req.mode).map_err(|x| e("mode", x))?;
                    let mut rng = ScriptRng::new(&req.ikm_e);
                    let mut buf = b"single shot probe".to_vec();
                    let _ = hpke::single_shot_seal_in_place_detached::<A, D, K, _>(&m, &pk_r, &req.info, &mut buf, b"aad", &mut rng).map_err(|x| e("single_shot_seal_in_place_detached", x))?;
                }
                2 => {
                    let m = mode_r::<K>(&req.mode).map_err(|x| e("mode", x))?;
                    let _ = hpke::single_shot_open::<A, D, K>(&m, &sk_r, &enc, &req.info, &ct, &aad).map_err(|x| e("single_shot_open", x))?;
                }
                _ => {
                    let m = mode_r::<K>(&req.mode).map_err(|x| e("mode", x))?;
                    let mut buf = ct[..ct.len() - nt].to_vec();
                    hpke::single_shot_open_in_place_detached::<A, D, K>(&m, &sk_r, &enc, &req.info, &mut buf, &aad, &tag).map_err(|x| e("single_shot_open_in_place_detached", x))?;
                }
            }
            let l2 = ledger();
            out.ledger_setup = delta(l0, l1);
            out.ledger_drop = delta(l1, l2);
            Ok(out)
        }
        What::DecapSecret => {
            let sk_r = K::PrivateKey::from_bytes(&req.sk_r).map_err(|x| e("sk_r", x))?;
            let enc = K::EncappedKey::from_bytes(&req.enc).map_err(|x| e("enc", x))?;
            let pk_s = if req.mode.mode().has_auth() {
                Some(K::PublicKey::from_bytes(&req.mode.pk_s).map_err(|x| e("pk_s", x))?)
            } else {
                None
            };
            let ss = K::decap(&sk_r, pk_s.as_ref(), &enc).map_err(|x| e("decap", x))?;
            if req.offset > 0 {
                return Ok(arena_probe(ss, &req.needles, req.offset));
            }
            Ok(slot_probe(ss, &req.needles, |_| 0))
        }
    }
}

#[derive(Clone, Debug, Serialize, Deserialize)]
pub struct Case {
    pub suite: SuiteId,
    pub mode: Mode,
    pub what: What,
    pub ops: Vec<Op>,
    pub tag: u64,
    /// value witness: the key material is searched (with R1) until the secret under observation has a
    /// special shape: 1 contains a 00 byte, 2 bytes XOR to 00, 3 first byte 00, 4 last byte 00,
    /// 5 bytes sum to 0 mod 256, 6 contains an ff byte; 0 = no constraint
    #[serde(default)]
    pub witness: u8,
    /// which secret the value witness is about (context cases): 0 exporter secret, 1 AEAD key (the
    /// stack temporary of the key schedule), 2 base nonce
    #[serde(default)]
    pub target: u8,
    /// shared-secret probes: the object is dropped at this byte offset of a 16-aligned arena (a wipe written for
    /// aligned words must also cope with an unaligned address)
    #[serde(default)]
    pub offset: usize,
}

fn shape_ok(w: u8, v: &[u8]) -> bool {
    match w {
        0 => true,
        1 => v.contains(&0),
        2 => v.iter().fold(0u8, |a, b| a ^ b) == 0,
        3 => v.first() == Some(&0),
        4 => v.last() == Some(&0),
        5 => v.iter().fold(0u8, |a, b| a.wrapping_add(*b)) == 0,
        _ => v.contains(&0xff),
    }
}

pub struct C16;

fn histories(thorough: bool) -> Vec<Vec<Op>> {
    // every prefix of  setup, msg, export, bad msg, msg  - and the exhaustion history
    let full = [Op::Msg, Op::Export, Op::BadMsg, Op::Msg];
    let mut v: Vec<Vec<Op>> = (0..=full.len()).map(|i| full[..i].to_vec()).collect();
    v.push(vec![Op::Exhaust]);
    v.push(vec![Op::Msg, Op::Unwind]);
    if thorough {
        v.push(vec![Op::Export, Op::Export]);
        v.push(vec![Op::BadMsg, Op::BadMsg, Op::Msg]);
        v.push(vec![Op::Msg, Op::Exhaust, Op::Export]);
    }
    v
}

impl Part for C16 {
    type Case = Case;
    fn name(&self) -> String {
        if cfg!(hpke_verif) { "E2-drop-points-guard-on".into() } else { "E2-drop-points-guard-off".into() }
    }
    fn rule(&self) -> String {
        "suite x mode x {sender ctx, receiver ctx, encap secret, decap secret} x drop after every prefix of a short history (and after exhaustion, and while a panic unwinds); the object lives in a 0xAA-filled heap slot; before the drop the slot must contain R1's exporter secret and base nonce (resp. shared secret), after drop_in_place it must not; with the guard on the drop ledger must show >=1 clean AeadKey and SharedSecret drop during setup and no dirty drop anywhere; non-trivial = a secret of >= 8 bytes was located in the slot before the drop".into()
    }
    fn bound(&self, cfg: &Cfg) -> String {
        if cfg.tier.thorough() {
            "48 suites x 4 modes x 2 roles x 9 histories + 4 KEMs x 12 KDF/AEAD x 4 modes x {encap, decap}".into()
        } else {
            "48 suites x 4 modes x 2 roles x 6 histories + encap/decap secrets for 48 suites x 4 modes".into()
        }
    }
    fn enumerate(&self, cfg: &Cfg) -> Vec<Case> {
        let mut v = vec![];
        let mut tag = 16000;
        for suite in all_suites() {
            for mode in MODES {
                for what in [What::SenderCtx, What::ReceiverCtx] {
                    for ops in histories(cfg.tier.thorough()) {
                        tag += 1;
                        v.push(Case { suite, mode, what: what.clone(), ops, tag, witness: 0, target: 0, offset: 0 });
                    }
                }
                for what in [What::EncapSecret, What::DecapSecret] {
                    tag += 1;
                    v.push(Case { suite, mode, what: what.clone(), ops: vec![], tag, witness: 0, target: 0, offset: 0 });
                    if mode == Mode::Base {
                        v.push(Case { suite, mode, what, ops: vec![Op::Unwind], tag, witness: 0, target: 0, offset: 0 });
                    }
                }
            }
        }
        // the single-shot forms (ledger only, so guard-on builds only)
        if cfg!(hpke_verif) {
            for suite in all_suites() {
                if !suite.aead.can_seal() || !(cfg.tier.thorough() || suite.kdf == suite.kem.kdf()) {
                    continue;
                }
                for mode in MODES {
                    for form in 0..4u8 {
                        tag += 1;
                        v.push(Case { suite, mode, what: What::SingleShot(form), ops: vec![], tag, witness: 0, target: 0, offset: 0 });
                    }
                }
            }
        }
        // shared secrets dropped at every offset 1..=15 of a 16-aligned arena
        for suite in all_suites() {
            if suite.aead != crate::refmodel::Aead::ExportOnly || suite.kdf != suite.kem.kdf() {
                continue;
            }
            for offset in 1..16usize {
                for what in [What::EncapSecret, What::DecapSecret] {
                    tag += 1;
                    v.push(Case { suite, mode: if offset % 2 == 0 { Mode::Base } else { Mode::Auth }, what, ops: vec![], tag, witness: 0, target: 0, offset });
                }
            }
        }
        // value witnesses (cheap KEMs only: each needs up to a few thousand R1 encapsulations)
        for suite in all_suites() {
            let cheap = matches!(suite.kem, crate::refmodel::Kem::X25519 | crate::refmodel::Kem::P256);
            if !cheap || !(suite.aead == crate::refmodel::Aead::ChaCha20Poly1305 || (cfg.tier.thorough() && suite.aead == crate::refmodel::Aead::Aes128Gcm)) {
                continue;
            }
            for witness in 1..=6u8 {
                for (mode, what) in [(Mode::Base, What::EncapSecret), (Mode::Auth, What::DecapSecret), (Mode::Base, What::SenderCtx), (Mode::Psk, What::ReceiverCtx)] {
                    let targets: &[u8] = if matches!(what, What::SenderCtx | What::ReceiverCtx) { &[0, 1, 2] } else { &[0] };
                    for &target in targets {
                        tag += 1;
                        v.push(Case { suite, mode, what: what.clone(), ops: vec![Op::Msg], tag, witness, target, offset: 0 });
                    }
                }
            }
        }
        v
    }
    fn run(&self, cfg: &Cfg, c: &Case) -> CaseOut {
        let mut out = CaseOut::new();
        out.outcome = format!("{:?}/{}{}", c.what, c.suite.aead.name(), if c.witness > 0 { "/value-witness" } else { "" });
        let ops = suite_ops(c.suite);
        let info = bytes(Fill::Mix, 20, 10, cfg.seed);
        let psk = bytes(Fill::Mix, 32, 11, cfg.seed);
        let psk_id = bytes(Fill::Mix, 22, 12, cfg.seed);
        let mut k = keys(c.suite.kem, c.tag, cfg.seed);
        let mut m = mode_spec(c.mode, &k, &psk, &psk_id);
        let mut found = None;
        for attempt in 0..6000u64 {
            if attempt > 0 {
                k = keys(c.suite.kem, c.tag + 100_000 * attempt, cfg.seed);
                m = mode_spec(c.mode, &k, &psk, &psk_id);
            }
            let r = match r1_setup_s(c.suite, &m, &k.pk_r, &info, &k.ikm_e) {
                Some(x) => x,
                None => {
                    out.fail_machinery("R1 setup failed (reference bug)");
                    return out;
                }
            };
            let observed: Vec<u8> = match c.what {
                What::SenderCtx | What::ReceiverCtx => match c.target {
                    1 => r.1.key.clone(),
                    2 => r.1.base_nonce.clone(),
                    _ => r.1.exporter_secret.clone(),
                },
                _ => {
                    let (sk_e, _, _) = c.suite.kem.derive_keypair(&k.ikm_e);
                    let auth = if c.mode.has_auth() { Some(&k.sk_s[..]) } else { None };
                    c.suite.kem.encap(&k.pk_r, auth, &sk_e).map(|x| x.0).unwrap_or_default()
                }
            };
            if shape_ok(c.witness, &observed) {
                found = Some(r);
                break;
            }
        }
        let (enc, mut ref_s) = match found {
            Some(x) => x,
            None => {
                out.fail_machinery("no value witness found in 6000 tries");
                return out;
            }
        };
        let mut cts = vec![];
        if c.suite.aead.can_seal() {
            for i in 0..3u8 {
                let aad = vec![i; 3];
                cts.push((ref_s.seal(&aad, b"drop probe message from R1").unwrap(), aad));
            }
        }
        let needles = match c.what {
            What::SenderCtx | What::ReceiverCtx => vec![
                ("exporter_secret".to_string(), ref_s.exporter_secret.clone()),
                ("base_nonce".to_string(), ref_s.base_nonce.clone()),
            ],
            What::EncapSecret | What::DecapSecret => {
                let (sk_e, _, _) = c.suite.kem.derive_keypair(&k.ikm_e);
                let auth = if c.mode.has_auth() { Some(&k.sk_s[..]) } else { None };
                let ss = c.suite.kem.encap(&k.pk_r, auth, &sk_e).map(|x| x.0).unwrap_or_default();
                vec![("shared_secret".to_string(), ss)]
            }
            What::SingleShot(_) => vec![],
        };
        let req = ProbeReq { what: c.what.clone(), mode: m, sk_r: k.sk_r.clone(), pk_r: k.pk_r.clone(), enc, info, ikm_e: k.ikm_e.clone(), ops: c.ops.clone(), cts, needles: needles.clone(), offset: c.offset };
        let r = std::panic::catch_unwind(std::panic::AssertUnwindSafe(|| ops.drop_probe(&req)));
        let po = match r {
            Ok(Ok(p)) => p,
            Ok(Err(e)) => {
                out.fail(format!("probe could not be set up: {}", e));
                return out;
            }
            Err(_) => {
                out.fail("library panicked during the drop probe");
                return out;
            }
        };
        out.transitions += 1;
        for (i, (name, needle)) in needles.iter().enumerate() {
            if needle.len() < 8 {
                // export-only suites have no base nonce in the RFC sense
                continue;
            }
            out.transitions += 1;
            let before = &po.before[i].1;
            let after = &po.after[i].1;
            if before.is_empty() {
                // not being able to SEE the secret is not a violation of C16 (the object may keep it behind a pointer): no verdict
                out.fail_machinery(format!("non-vacuity: {} predicted by R1 not found in the live {:?} ({} bytes) - the probe cannot see it, so it cannot decide whether it is wiped", name, c.what, po.size));
            } else {
                out.nontrivial = true;
            }
            // The move into the slot copies padding bytes of the AEAD cipher state along, and those can
            // hold stale stack copies of the secret that no Drop impl owns. The property speaks of the
            // memory that *held* the secret: at least one place where it was must be all-zero now, and
            // if it was in exactly one place it must be gone altogether.
            let wiped = &po.wiped[i].1;
            // AES-GCM cipher state has padding that can carry stale stack copies along; ChaCha20Poly1305 and the
            // export-only state have none, and neither has a bare shared secret: there the secret must be gone
            let strict = !matches!(c.suite.aead, crate::refmodel::Aead::Aes128Gcm | crate::refmodel::Aead::Aes256Gcm) || matches!(c.what, What::EncapSecret | What::DecapSecret);
            if strict && !after.is_empty() {
                out.fail(format!("{} still present at offset(s) {:?} of the {:?} storage after drop (it was at {:?} before)", name, after, c.what, before));
            } else if !before.is_empty() && wiped.is_empty() {
                out.fail(format!("{} not wiped: present at offset(s) {:?} of the {:?} storage before the drop, at {:?} after it, and no former location is zeroed", name, before, c.what, after));
            } else if before.len() == 1 && !after.is_empty() {
                out.fail(format!("{} still present at offset(s) {:?} of the {:?} storage after drop", name, after, c.what));
            }
            if !after.is_empty() && !wiped.is_empty() {
                out.notes.push(format!("stale copy of {} outside its field survives the drop (padding bytes copied by a move; not part of C16)", name));
            }
        }
        if let What::SingleShot(form) = c.what {
            // ledger_setup = the composed path (setup + one operation + drop), ledger_drop = the single-shot call
            if let (Some(comp), Some(single)) = (po.ledger_setup, po.ledger_drop) {
                out.nontrivial = true;
                out.transitions += 1;
                let names = ["AeadKey (temporary key buffer)", "AeadNonce (base nonce)", "ExporterSecret", "SharedSecret"];
                let fname = ["single_shot_seal", "single_shot_seal_in_place_detached", "single_shot_open", "single_shot_open_in_place_detached"][form as usize];
                for i in 0..4 {
                    if comp[i].0 < 1 {
                        out.fail(format!("composed path recorded no {} wipe", names[i]));
                    }
                    if comp[i].1 > 0 || single[i].1 > 0 {
                        out.fail(format!("{}: {} dropped with non-zero bytes left", fname, names[i]));
                    }
                    // a single-shot call cannot do without the KEM shared secret, the AEAD key and the nonce, so each of them
                    // must have been wiped at least once; it may legitimately never materialise an exporter secret
                    if i != 2 && single[i].0 < 1 {
                        out.fail(format!("{}: no {} wipe recorded (setup + one operation + drop of the context records {}): a secret of the single-shot path is never wiped", fname, names[i], comp[i].0));
                    }
                }
            }
            return out;
        }
        if let Some(l) = po.ledger_setup {
            // [AeadKey, AeadNonce, ExporterSecret, SharedSecret]
            out.transitions += 1;
            let names = ["AeadKey", "AeadNonce", "ExporterSecret", "SharedSecret"];
            for i in 0..4 {
                if l[i].1 > 0 {
                    out.fail(format!("setup: {} dropped with non-zero bytes left ({} of {} drops)", names[i], l[i].1, l[i].0));
                }
            }
            if l[0].0 < 1 {
                out.fail("setup: the temporary AEAD key buffer was never wiped/dropped during setup (no AeadKey drop recorded)");
            }
            if l[3].0 < 1 {
                out.fail("setup: the KEM shared secret moved into the key schedule was never wiped/dropped (no SharedSecret drop recorded)");
            }
        }
        if let Some(l) = po.ledger_drop {
            out.transitions += 1;
            let names = ["AeadKey", "AeadNonce", "ExporterSecret", "SharedSecret"];
            for i in 0..4 {
                if l[i].1 > 0 {
                    out.fail(format!("drop: {} dropped with non-zero bytes left", names[i]));
                }
            }
            match c.what {
                What::SenderCtx | What::ReceiverCtx => {
                    if l[2].0 < 1 {
                        out.fail("drop of the context recorded no ExporterSecret wipe");
                    }
                    if l[1].0 < 1 {
                        out.fail("drop of the context recorded no AeadNonce (base nonce) wipe");
                    }
                }
                _ => {
                    if l[3].0 < 1 {
                        out.fail("drop of the shared secret recorded no SharedSecret wipe");
                    }
                }
            }
        }
        let _ = ops;
        out
    }
}

