//! C13 - no panic on attacker-controlled input: every byte-consuming entry point returns a value or an
//! HpkeError for every length in the boundary sets (overflow checks and debug assertions of `hpke` on).

use super::*;
use crate::engine::{Cfg, Part};
use crate::refmodel::{Kem, Mode, SuiteId, KEMS, MODES};
use crate::rng::{bytes, Fill, ScriptRng, FILLS_ALL};
use crate::suites::{kem_ops, seal_suites, suite_ops, KeyKind, ModeSpec};
use hpke::HpkeError;
use serde::{Deserialize, Serialize};

#[derive(Clone, Debug, PartialEq, Eq, Serialize, Deserialize)]
pub enum Entry {
    KeyFromBytes,
    TagFromBytes,
    SetupInfo,
    SetupPsk,
    Open,
    OpenInPlace,
    SingleShotOpen,
    Export,
    DeriveKeypair,
    /// contexts that have used up their sequence numbers (hook): every input length through every form
    Exhausted,
}

#[derive(Clone, Debug, Serialize, Deserialize)]
pub struct Case {
    pub suite: SuiteId,
    pub mode: Mode,
    pub entry: Entry,
}

pub struct C13;

/// every length 0..=n (a bug that depends on one particular length, not on a boundary, needs density)
fn dense(n: usize) -> Vec<usize> {
    (0..=n).collect()
}

fn lens(thorough: bool, around: &[usize]) -> Vec<usize> {
    let mut v: Vec<usize> = (0..=40).collect();
    v.extend_from_slice(&LEN_BLOCK);
    v.extend_from_slice(&[1973, 1974, 2048, 4095, 4096, 4097, 65535, 65536, 65537, 100_000]);
    if thorough {
        v.push(1 << 20);
    }
    for &a in around {
        for d in 0..=2 {
            v.push(a + d);
            v.push(a.saturating_sub(d));
        }
        v.push(2 * a + 2);
    }
    v.sort();
    v.dedup();
    v
}

/// the result must be a value or an error - never a panic. Returns the error (if any) for the
/// error-kind checks.
fn no_panic<T>(out: &mut CaseOut, what: &str, o: &Obs<T>) -> Option<HpkeError> {
    out.transitions += 1;
    out.nontrivial = true;
    match o {
        Obs::Panic(s) => {
            out.fail(format!("{}: PANIC: {}", what, s));
            None
        }
        Obs::Err(e) | Obs::Pre(e) => Some(*e),
        Obs::Ok(_) => None,
    }
}

impl Part for C13 {
    type Case = Case;
    fn name(&self) -> String {
        "E1-no-panic".into()
    }
    fn rule(&self) -> String {
        "entry point x suite x mode; per case every length in {0..40} + block boundaries + {1973,1974,2048,4095..4097,65535..65537,100000 (,1 MiB)} + 0..=2*size+2 around every fixed size, with 2-5 fills: key / encapsulated-key / tag deserialization, receiver and sender setup (info, psk, psk_id), open / open_in_place_detached / single-shot open (ciphertext, aad, tag), export (context and output length), derive_keypair (ikm); oracle: the call returns (no unwind - overflow checks and debug assertions are on for hpke), the result is Ok or an HpkeError, sender setup errors are within {EncapError}, receiver setup errors within {DecapError}".into()
    }
    fn bound(&self, cfg: &Cfg) -> String {
        if cfg.tier.thorough() { "36 sealing suites x 4 modes x 9 entry points, 5 fills, lengths up to 1 MiB".into() } else { "36 sealing suites (setup-heavy entries: X25519/P-256 only) x 4 modes (Base+AuthPsk for most) x 9 entry points, 2 fills, lengths up to 100000".into() }
    }
    fn enumerate(&self, cfg: &Cfg) -> Vec<Case> {
        let t = cfg.tier.thorough();
        let mut v = vec![];
        for suite in seal_suites() {
            for mode in MODES {
                for entry in [Entry::KeyFromBytes, Entry::TagFromBytes, Entry::SetupInfo, Entry::SetupPsk, Entry::Open, Entry::OpenInPlace, Entry::SingleShotOpen, Entry::Export, Entry::DeriveKeypair, Entry::Exhausted] {
                    if entry == Entry::Exhausted && !(crate::suites::HOOKS && mode == Mode::Base && suite.kdf == suite.kem.kdf()) {
                        continue;
                    }
                    let kem_only = matches!(entry, Entry::KeyFromBytes | Entry::DeriveKeypair);
                    if kem_only && !(suite.kdf == suite.kem.kdf() && suite.aead == crate::refmodel::Aead::Aes128Gcm && mode == Mode::Base) {
                        continue;
                    }
                    if entry == Entry::TagFromBytes && !(suite.kem == Kem::X25519 && suite.kdf == crate::refmodel::Kdf::Sha256 && mode == Mode::Base) {
                        continue;
                    }
                    if entry == Entry::SetupPsk && !mode.has_psk() {
                        continue;
                    }
                    if !t {
                        let heavy = matches!(suite.kem, Kem::P384 | Kem::P521);
                        if heavy && matches!(entry, Entry::SetupInfo | Entry::SetupPsk | Entry::SingleShotOpen) {
                            continue;
                        }
                        if !matches!(mode, Mode::Base | Mode::AuthPsk) && !matches!(entry, Entry::SetupPsk) {
                            continue;
                        }
                    }
                    v.push(Case { suite, mode, entry });
                }
            }
        }
        let _ = KEMS;
        v
    }
    fn run(&self, cfg: &Cfg, c: &Case) -> CaseOut {
        let mut out = CaseOut::new();
        let t = cfg.tier.thorough();
        out.outcome = format!("{:?}", c.entry);
        let fills: Vec<Fill> = if t { FILLS_ALL.to_vec() } else { vec![Fill::Zero, Fill::Mix] };
        let ops = suite_ops(c.suite);
        let kops = kem_ops(c.suite.kem);
        let k = keys(c.suite.kem, 13_000, cfg.seed);
        let info = b"c13".to_vec();
        let m = mode_spec(c.mode, &k, &bytes(Fill::Mix, 32, 11, cfg.seed), &bytes(Fill::Mix, 22, 12, cfg.seed));
        let nt = c.suite.aead.nt();
        match c.entry {
            Entry::KeyFromBytes => {
                for kind in [KeyKind::Public, KeyKind::Private, KeyKind::Encapped] {
                    let size = kops.size(kind);
                    let valid = match kind {
                        KeyKind::Public | KeyKind::Encapped => k.pk_r.clone(),
                        KeyKind::Private => k.sk_r.clone(),
                    };
                    for l in lens(t, &[size]) {
                        for &f in &fills {
                            let b = bytes(f, l, 1, cfg.seed);
                            let e = no_panic(&mut out, &format!("{} {:?}::from_bytes({} bytes, {:?})", c.suite.kem.name(), kind, l, f), &kops.reserialize(kind, &b));
                            if l != size && e != Some(HpkeError::IncorrectInputLength(size, l)) {
                                out.fail(format!("{} {:?}::from_bytes of {} bytes: {:?} want IncorrectInputLength({}, {})", c.suite.kem.name(), kind, l, e, size, l));
                            }
                        }
                        // a valid encoding cut / extended to this length
                        let mut b = valid.clone();
                        b.resize(l, 0x04);
                        no_panic(&mut out, &format!("{} {:?}::from_bytes(valid key resized to {})", c.suite.kem.name(), kind, l), &kops.reserialize(kind, &b));
                    }
                }
                // boundary scalars and points: whatever deserialization ACCEPTS must then be usable without a panic
                // (a key that is accepted and blows up on first use is a panic on attacker-controlled input as well)
                let nsk = kops.size(KeyKind::Private);
                let small = |d: u8| -> Vec<u8> {
                    let mut b = vec![0u8; nsk];
                    b[nsk - 1] = d;
                    b
                };
                let mut sks: Vec<Vec<u8>> = vec![small(0), small(1), small(2), vec![0xff; nsk], vec![0x80; nsk]];
                if let Some(n1) = c.suite.kem.neg_sk(&small(1)) {
                    // n - 1, n, n + 1
                    let mut n = n1.clone();
                    for _ in 0..2 {
                        for i in (0..n.len()).rev() {
                            n[i] = n[i].wrapping_add(1);
                            if n[i] != 0 {
                                break;
                            }
                        }
                        sks.push(n.clone());
                    }
                    sks.push(n1);
                }
                for (i, sk) in sks.iter().enumerate() {
                    if kops.reserialize(KeyKind::Private, sk).ok().is_none() {
                        continue;
                    }
                    let what = format!("{} private key #{} ({}) accepted by from_bytes, then", c.suite.kem.name(), i, crate::obs::hx(sk));
                    no_panic(&mut out, &format!("{} sk_to_pk", what), &kops.sk_to_pk(sk));
                    no_panic(&mut out, &format!("{} decap", what), &kops.decap(sk, None, &k.pk_s));
                    no_panic(&mut out, &format!("{} setup_receiver", what), &ops.setup_receiver(&m, sk, &k.pk_s, &info));
                    let m_auth = ModeSpec { kind: 2, psk: vec![], psk_id: vec![], sk_s: sk.clone(), pk_s: k.pk_s.clone() };
                    let mut rng = ScriptRng::new(&k.ikm_e);
                    no_panic(&mut out, &format!("{} setup_sender(Auth) with it as identity key", what), &ops.setup_sender(&m_auth, &k.pk_r, &info, &mut rng));
                }
                let npk = kops.size(KeyKind::Public);
                let mut pks: Vec<Vec<u8>> = vec![vec![0u8; npk], vec![0xff; npk]];
                if npk > 32 {
                    let mut z = vec![0u8; npk];
                    z[0] = 4;
                    pks.push(z);
                    pks.extend(c.suite.kem.point_x_zero());
                    pks.extend(c.suite.kem.small_multiple(1));
                }
                for (i, pk) in pks.iter().enumerate() {
                    if kops.reserialize(KeyKind::Public, pk).ok().is_none() {
                        continue;
                    }
                    let what = format!("{} public key #{} accepted by from_bytes, then", c.suite.kem.name(), i);
                    let mut rng = ScriptRng::new(&k.ikm_e);
                    no_panic(&mut out, &format!("{} setup_sender to it", what), &ops.setup_sender(&m, pk, &info, &mut rng));
                    no_panic(&mut out, &format!("{} setup_receiver with it as enc", what), &ops.setup_receiver(&m, &k.sk_r, pk, &info));
                    let m_auth = ModeSpec { kind: 2, psk: vec![], psk_id: vec![], sk_s: vec![], pk_s: pk.clone() };
                    no_panic(&mut out, &format!("{} setup_receiver(Auth) with it as sender key", what), &ops.setup_receiver(&m_auth, &k.sk_r, &k.pk_s, &info));
                }
            }
            Entry::TagFromBytes => {
                for l in lens(t, &[nt]) {
                    for &f in &fills {
                        let e = no_panic(&mut out, &format!("AeadTag::from_bytes({} bytes)", l), &ops.tag_reserialize(&bytes(f, l, 1, cfg.seed)));
                        if l != nt && e != Some(HpkeError::IncorrectInputLength(nt, l)) {
                            out.fail(format!("AeadTag::from_bytes of {} bytes: {:?} want IncorrectInputLength({}, {})", l, e, nt, l));
                        }
                    }
                }
            }
            Entry::SetupInfo => {
                if matches!(c.suite.kem, Kem::X25519) || (t && c.suite.kem == Kem::P256) {
                    for l in dense(if t { 1100 } else { 600 }) {
                        let info = bytes(Fill::Mix, l, 2, cfg.seed);
                        let mut rng = ScriptRng::new(&k.ikm_e);
                        let o = ops.setup_sender(&m, &k.pk_r, &info, &mut rng);
                        if let Some(e) = no_panic(&mut out, &format!("setup_sender(info {} bytes)", l), &o) {
                            out.fail(format!("setup_sender(info {} bytes) failed with {:?}", l, e));
                        }
                    }
                }
                for l in lens(t, &[]) {
                    let f = fills[l % fills.len()];
                    let info = bytes(f, l, 2, cfg.seed);
                    let mut rng = ScriptRng::new(&k.ikm_e);
                    let o = ops.setup_sender(&m, &k.pk_r, &info, &mut rng);
                    if let Some(e) = no_panic(&mut out, &format!("setup_sender(info {} bytes)", l), &o) {
                        if e != HpkeError::EncapError {
                            out.fail(format!("setup_sender(info {} bytes) failed with {:?}; only EncapError is allowed", l, e));
                        }
                    }
                    let enc = o.ok().map(|x| x.0).unwrap_or_else(|| k.pk_s.clone());
                    let o = ops.setup_receiver(&m, &k.sk_r, &enc, &info);
                    if let Some(e) = no_panic(&mut out, &format!("setup_receiver(info {} bytes)", l), &o) {
                        if e != HpkeError::DecapError {
                            out.fail(format!("setup_receiver(info {} bytes) failed with {:?}; only DecapError is allowed", l, e));
                        }
                    }
                }
                // X25519: keys that make a DH fail - the error kind is fixed by the side that fails
                if c.suite.kem == Kem::X25519 {
                    for bad in super::c10::small_order_encodings() {
                        let mut rng = ScriptRng::new(&k.ikm_e);
                        let o = ops.setup_sender(&m, &bad, &info, &mut rng);
                        if let Some(e) = no_panic(&mut out, "setup_sender(small-order recipient key)", &o) {
                            if e != HpkeError::EncapError {
                                out.fail(format!("setup_sender(small-order recipient key) failed with {:?}; only EncapError is allowed", e));
                            }
                        }
                        let o = ops.setup_receiver(&m, &k.sk_r, &bad, &info);
                        if let Some(e) = no_panic(&mut out, "setup_receiver(small-order enc)", &o) {
                            if e != HpkeError::DecapError {
                                out.fail(format!("setup_receiver(small-order encapsulated key) failed with {:?}; only DecapError is allowed", e));
                            }
                        }
                        if c.mode.has_auth() {
                            let m2 = ModeSpec { pk_s: bad.clone(), ..m.clone() };
                            let o = ops.setup_receiver(&m2, &k.sk_r, &k.pk_s, &info);
                            if let Some(e) = no_panic(&mut out, "setup_receiver(small-order sender identity key)", &o) {
                                if e != HpkeError::DecapError {
                                    out.fail(format!("setup_receiver(small-order sender identity key) failed with {:?}; only DecapError is allowed", e));
                                }
                            }
                            let mut rng = ScriptRng::new(&k.ikm_e);
                            let o = ops.setup_sender(&m2, &bad, &info, &mut rng);
                            if let Some(e) = no_panic(&mut out, "setup_sender(small-order recipient key, auth)", &o) {
                                if e != HpkeError::EncapError {
                                    out.fail(format!("setup_sender(auth, small-order recipient key) failed with {:?}; only EncapError is allowed", e));
                                }
                            }
                        }
                    }
                }
                // an identity pair whose halves do not belong together (the API takes them as two independent values)
                if c.mode.has_auth() {
                    let other = keys(c.suite.kem, 13_200, cfg.seed);
                    for (what, sk_s, pk_s) in [("foreign public half", k.sk_s.clone(), other.pk_s.clone()), ("recipient's public key as own public half", k.sk_s.clone(), k.pk_r.clone())] {
                        let m2 = ModeSpec { sk_s, pk_s, ..m.clone() };
                        let mut rng = ScriptRng::new(&k.ikm_e);
                        let o = ops.setup_sender(&m2, &k.pk_r, &info, &mut rng);
                        if let Some(e) = no_panic(&mut out, &format!("setup_sender(identity pair with a {})", what), &o) {
                            if e != HpkeError::EncapError {
                                out.fail(format!("setup_sender(identity pair with a {}) failed with {:?}; only EncapError is allowed", what, e));
                            }
                        }
                        let mut rng = ScriptRng::new(&k.ikm_e);
                        if let Some(e) = no_panic(&mut out, "single_shot_seal(mismatched identity pair)", &ops.single_shot_seal(&m2, &k.pk_r, &info, b"pt", b"", &mut rng)) {
                            if e != HpkeError::EncapError {
                                out.fail(format!("single_shot_seal(identity pair with a {}) failed with {:?}; only EncapError is allowed", what, e));
                            }
                        }
                    }
                }
                // keys of the session itself in the wrong role: the receiver's own public key reflected as enc / as sender key
                for (what, enc_x, pk_s_x) in [("enc = the receiver's own public key", k.pk_r.clone(), k.pk_s.clone()), ("sender key = the receiver's own public key", k.pk_s.clone(), k.pk_r.clone()), ("enc = the sender's identity key", k.pk_s.clone(), k.pk_s.clone())] {
                    let m2 = ModeSpec { pk_s: if c.mode.has_auth() { pk_s_x } else { vec![] }, ..m.clone() };
                    let o = ops.setup_receiver(&m2, &k.sk_r, &enc_x, &info);
                    if let Some(e) = no_panic(&mut out, &format!("setup_receiver({})", what), &o) {
                        if e != HpkeError::DecapError {
                            out.fail(format!("setup_receiver({}) failed with {:?}; only DecapError is allowed", what, e));
                        }
                    }
                    no_panic(&mut out, &format!("single_shot_open({})", what), &ops.single_shot_open(&m2, &k.sk_r, &enc_x, &info, &[0u8; 30], b""));
                }
                // arbitrary (valid-format) encapsulated keys: any public key is a possible enc
                for i in 0..8u64 {
                    let other = keys(c.suite.kem, 13_100 + i, cfg.seed);
                    let o = ops.setup_receiver(&m, &k.sk_r, &other.pk_r, &info);
                    if let Some(e) = no_panic(&mut out, "setup_receiver(arbitrary valid enc)", &o) {
                        if e != HpkeError::DecapError {
                            out.fail(format!("setup_receiver failed with {:?}; only DecapError is allowed", e));
                        }
                    }
                }
            }
            Entry::SetupPsk => {
                // the empty bundle is a legal PSK-mode input (C15): setup and the single-shot forms must cope with it
                {
                    let m0 = ModeSpec { psk: vec![], psk_id: vec![], ..m.clone() };
                    let mut rng = ScriptRng::new(&k.ikm_e);
                    let o = ops.setup_sender(&m0, &k.pk_r, &info, &mut rng);
                    if let Some(e) = no_panic(&mut out, "setup_sender(PSK mode, empty bundle)", &o) {
                        out.fail(format!("setup_sender(PSK mode, empty bundle) failed with {:?}", e));
                    }
                    let enc = o.ok().map(|x| x.0).unwrap_or_else(|| k.pk_s.clone());
                    if let Some(e) = no_panic(&mut out, "setup_receiver(PSK mode, empty bundle)", &ops.setup_receiver(&m0, &k.sk_r, &enc, &info)) {
                        out.fail(format!("setup_receiver(PSK mode, empty bundle) failed with {:?}", e));
                    }
                    let mut rng = ScriptRng::new(&k.ikm_e);
                    no_panic(&mut out, "single_shot_seal(PSK mode, empty bundle)", &ops.single_shot_seal(&m0, &k.pk_r, &info, b"pt", b"aad", &mut rng));
                    no_panic(&mut out, "single_shot_open(PSK mode, empty bundle)", &ops.single_shot_open(&m0, &k.sk_r, &enc, &info, &[0u8; 20], b"aad"));
                }
                if matches!(c.suite.kem, Kem::X25519) {
                    for l in dense(if t { 700 } else { 330 }) {
                        if l == 0 {
                            continue;
                        }
                        for (pl, il) in [(l, 3usize), (3usize, l)] {
                            let m2 = ModeSpec { psk: bytes(Fill::Mix, pl, 3, cfg.seed), psk_id: bytes(Fill::Mix, il, 4, cfg.seed), ..m.clone() };
                            let mut rng = ScriptRng::new(&k.ikm_e);
                            let o = ops.setup_sender(&m2, &k.pk_r, &info, &mut rng);
                            if let Some(e) = no_panic(&mut out, &format!("setup_sender(psk {} psk_id {})", pl, il), &o) {
                                out.fail(format!("setup_sender(psk {} psk_id {}) failed with {:?}", pl, il, e));
                            }
                        }
                    }
                }
                for l in lens(t, &[c.suite.kdf.nh(), 266]) {
                    if l == 0 {
                        continue;
                    }
                    for (pl, il) in [(l, 1usize), (1usize, l), (l, l)] {
                        let f = fills[l % fills.len()];
                        let m2 = ModeSpec { psk: bytes(f, pl, 3, cfg.seed), psk_id: bytes(f, il, 4, cfg.seed), ..m.clone() };
                        let mut rng = ScriptRng::new(&k.ikm_e);
                        let o = ops.setup_sender(&m2, &k.pk_r, &info, &mut rng);
                        if let Some(e) = no_panic(&mut out, &format!("setup_sender(psk {} psk_id {})", pl, il), &o) {
                            if e != HpkeError::EncapError {
                                out.fail(format!("setup_sender(psk {} psk_id {}) failed with {:?}", pl, il, e));
                            }
                        }
                        if let Some((enc, _)) = o.ok() {
                            let o = ops.setup_receiver(&m2, &k.sk_r, &enc, &info);
                            if let Some(e) = no_panic(&mut out, &format!("setup_receiver(psk {} psk_id {})", pl, il), &o) {
                                if e != HpkeError::DecapError {
                                    out.fail(format!("setup_receiver(psk {} psk_id {}) failed with {:?}", pl, il, e));
                                }
                            }
                        }
                    }
                }
            }
            Entry::Open | Entry::OpenInPlace | Entry::SingleShotOpen => {
                let (enc, _) = match r1_setup_s(c.suite, &m, &k.pk_r, &info, &k.ikm_e) {
                    Some(x) => x,
                    None => {
                        out.fail_machinery("R1 setup failed");
                        return out;
                    }
                };
                let mut r = match ops.setup_receiver(&m, &k.sk_r, &enc, &info).need("setup_receiver") {
                    Ok(r) => r,
                    Err(e) => {
                        out.fail(e);
                        return out;
                    }
                };
                if c.entry != Entry::SingleShotOpen {
                    for l in dense(if t { 1100 } else { 400 }) {
                        let ct = bytes(Fill::Mix, l, 5, cfg.seed);
                        let aad = bytes(Fill::Mix, (l * 7 + 3) % 1100, 6, cfg.seed);
                        let what = format!("{:?}(ciphertext {} bytes, aad {} bytes)", c.entry, l, aad.len());
                        let e = if c.entry == Entry::Open {
                            no_panic(&mut out, &what, &r.open(&ct, &aad))
                        } else {
                            let mut b = ct.clone();
                            no_panic(&mut out, &what, &r.open_ip(&mut b, &aad, &bytes(Fill::Mix, nt, 7, cfg.seed)))
                        };
                        if e.is_some() && e != Some(HpkeError::OpenError) {
                            out.fail(format!("{}: failed with {:?}, want OpenError", what, e));
                        }
                    }
                }
                if c.entry != Entry::SingleShotOpen {
                    // ... and every aad length, with a small ciphertext
                    for al in dense(if t { 2100 } else { 1100 }) {
                        let ct = bytes(Fill::Mix, 20 + al % 3, 5, cfg.seed);
                        let aad = bytes(Fill::Mix, al, 6, cfg.seed);
                        let what = format!("{:?}(ciphertext {} bytes, aad {} bytes)", c.entry, ct.len(), al);
                        let e = if c.entry == Entry::Open {
                            no_panic(&mut out, &what, &r.open(&ct, &aad))
                        } else {
                            let mut b = ct.clone();
                            no_panic(&mut out, &what, &r.open_ip(&mut b, &aad, &bytes(Fill::Mix, nt, 7, cfg.seed)))
                        };
                        if e.is_some() && e != Some(HpkeError::OpenError) {
                            out.fail(format!("{}: failed with {:?}, want OpenError", what, e));
                        }
                    }
                }
                let ls = lens(t && c.entry != Entry::SingleShotOpen, &[nt]);
                for &l in &ls {
                    for &f in &fills {
                        let ct = bytes(f, l, 5, cfg.seed);
                        // aad length walks through the same set, offset so that (ct, aad) pairs vary
                        let al = ls[(l + 7) % ls.len()].min(70_000);
                        let aad = bytes(f, al, 6, cfg.seed);
                        let what = format!("{:?}(ciphertext {} bytes, aad {} bytes, {:?})", c.entry, l, al, f);
                        let e = match c.entry {
                            Entry::Open => no_panic(&mut out, &what, &r.open(&ct, &aad)),
                            Entry::OpenInPlace => {
                                let mut b = ct.clone();
                                let tag = bytes(f, nt, 7, cfg.seed);
                                no_panic(&mut out, &what, &r.open_ip(&mut b, &aad, &tag))
                            }
                            _ => {
                                if l > 5000 && f != Fill::Mix {
                                    continue;
                                }
                                no_panic(&mut out, &what, &ops.single_shot_open(&m, &k.sk_r, &enc, &info, &ct, &aad))
                            }
                        };
                        if e.is_some() && e != Some(HpkeError::OpenError) {
                            out.fail(format!("{}: failed with {:?}, want OpenError", what, e));
                        }
                        if e.is_none() && !out.mismatches.iter().any(|m| m.msg.contains("PANIC")) {
                            out.fail(format!("{}: garbage was ACCEPTED", what));
                        }
                    }
                }
            }
            Entry::Exhausted => {
                let (enc, refctx) = match r1_setup_s(c.suite, &m, &k.pk_r, &info, &k.ikm_e) {
                    Some(x) => x,
                    None => {
                        out.fail_machinery("R1 setup failed");
                        return out;
                    }
                };
                let (mut s, mut r) = match (ops.setup_sender(&m, &k.pk_r, &info, &mut ScriptRng::new(&k.ikm_e)).need("setup_sender"), ops.setup_receiver(&m, &k.sk_r, &enc, &info).need("setup_receiver")) {
                    (Ok(s), Ok(r)) => (s.1, r),
                    (Err(e), _) | (_, Err(e)) => {
                        out.fail(e);
                        return out;
                    }
                };
                // use the last sequence number on both sides, then throw everything at the exhausted contexts
                s.set_seq(u64::MAX);
                r.set_seq(u64::MAX);
                let last = refctx.seal_at(u64::MAX as u128, b"", b"last");
                no_panic(&mut out, "seal at the last sequence number", &s.seal(b"last", b""));
                no_panic(&mut out, "open at the last sequence number", &r.open(&last, b""));
                for l in dense(if t { 300 } else { 80 }) {
                    let data = bytes(Fill::Mix, l, 8, cfg.seed);
                    for (what, e) in [
                        (format!("exhausted receiver: open({} bytes)", l), no_panic(&mut out, "open on an exhausted receiver", &r.open(&data, b"aad"))),
                        (format!("exhausted receiver: open_in_place_detached({} bytes)", l), {
                            let mut b = data.clone();
                            no_panic(&mut out, "open_in_place_detached on an exhausted receiver", &r.open_ip(&mut b, b"aad", &[0u8; 16][..nt]))
                        }),
                        (format!("exhausted sender: seal({} bytes)", l), no_panic(&mut out, "seal on an exhausted sender", &s.seal(&data, b"aad"))),
                        (format!("exhausted sender: seal_in_place_detached({} bytes)", l), {
                            let mut b = data.clone();
                            no_panic(&mut out, "seal_in_place_detached on an exhausted sender", &s.seal_ip(&mut b, b"aad"))
                        }),
                    ] {
                        if e != Some(HpkeError::MessageLimitReached) {
                            out.fail(format!("{}: {:?} want MessageLimitReached", what, e));
                        }
                    }
                }
                no_panic(&mut out, "export on an exhausted sender", &s.export(b"x", 32));
                no_panic(&mut out, "export on an exhausted receiver", &r.export(b"x", 32));
            }
            Entry::Export => {
                let mut rng = ScriptRng::new(&k.ikm_e);
                let s = match ops.setup_sender(&m, &k.pk_r, &info, &mut rng).need("setup_sender") {
                    Ok(x) => x.1,
                    Err(e) => {
                        out.fail(e);
                        return out;
                    }
                };
                let nh = c.suite.kdf.nh();
                // dense: every exporter-context length up to 1100 (2100 in thorough), one small output each
                for l in dense(if t { 2100 } else { 1100 }) {
                    let ectx = bytes(Fill::Mix, l, 8, cfg.seed);
                    let e = no_panic(&mut out, &format!("export(context {} bytes, L=32)", l), &s.export(&ectx, 32));
                    if e.is_some() {
                        out.fail(format!("export(context {} bytes, L=32) failed: {:?}", l, e));
                    }
                }
                let ls = lens(t, &[255 * nh]);
                for &l in &ls {
                    let f = fills[l % fills.len()];
                    let ectx = bytes(f, l, 8, cfg.seed);
                    for ol in [0usize, 1, nh, 255 * nh, 255 * nh + 1] {
                        let e = no_panic(&mut out, &format!("export(context {} bytes, L={})", l, ol), &s.export(&ectx, ol));
                        let want = if ol > 255 * nh { Some(HpkeError::KdfOutputTooLong) } else { None };
                        if e != want && !out.mismatches.iter().any(|m| m.msg.contains("PANIC")) {
                            out.fail(format!("export(context {} bytes, L={}): {:?} want {:?}", l, ol, e, want));
                        }
                    }
                    // the output length walks through the set as well
                    let e = no_panic(&mut out, &format!("export(context 3 bytes, L={})", l), &s.export(b"ctx", l));
                    let want = if l > 255 * nh { Some(HpkeError::KdfOutputTooLong) } else { None };
                    if e != want && !out.mismatches.iter().any(|m| m.msg.contains("PANIC")) {
                        out.fail(format!("export(L={}): {:?} want {:?}", l, e, want));
                    }
                }
            }
            Entry::DeriveKeypair => {
                for l in dense(if t { 600 } else { 300 }) {
                    no_panic(&mut out, &format!("{} derive_keypair(ikm {} bytes)", c.suite.kem.name(), l), &kops.derive_keypair(&bytes(Fill::Mix, l, 9, cfg.seed)));
                }
                for l in lens(t, &[c.suite.kem.nsk()]) {
                    for &f in &fills {
                        no_panic(&mut out, &format!("{} derive_keypair(ikm {} bytes, {:?})", c.suite.kem.name(), l, f), &kops.derive_keypair(&bytes(f, l, 9, cfg.seed)));
                    }
                }
            }
        }
        out
    }
}
