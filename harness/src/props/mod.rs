//! Per-property explorations plus helpers shared by them

use crate::engine::CaseOut;
use crate::obs::Obs;
use crate::refmodel::{self as r1, Kem, Mode, SuiteId};
use crate::rng::{bytes, Fill};
use crate::suites::ModeSpec;

pub mod c01;
pub mod c02;
pub mod c03;
pub mod c06;
pub mod c07;
pub mod c08;
pub mod c09;
pub mod c10;
pub mod c11;
pub mod c13;
pub mod c14;
pub mod c16;

/// DESIGN §6 alphabets
pub const LEN_BLOCK: [usize; 17] = [0, 1, 15, 16, 17, 31, 32, 33, 63, 64, 65, 127, 128, 129, 255, 256, 257];
pub const LEN_BIG: [usize; 6] = [4095, 4096, 4097, 65535, 65536, 65537];
pub const INFO_LENS: [usize; 6] = [0, 1, 20, 64, 65, 300];
pub const PSK_SHAPES: [(usize, usize); 5] = [(32, 22), (1, 1), (64, 1), (1, 64), (129, 300)];

/// Key material of one session, derived with R1 (never with the implementation under test) from
/// small seeds, so that inputs do not depend on the code being checked.
#[derive(Clone, Debug)]
pub struct Keys {
    pub sk_r: Vec<u8>,
    pub pk_r: Vec<u8>,
    pub sk_s: Vec<u8>,
    pub pk_s: Vec<u8>,
    /// the bytes the scripted RNG hands to the sender: ikm of the ephemeral key (Nsk bytes)
    pub ikm_e: Vec<u8>,
}

pub fn keys(kem: Kem, tag: u64, seed: u64) -> Keys {
    let ikm_r = bytes(Fill::Mix, kem.nsk(), tag.wrapping_mul(3) + 1, seed);
    let ikm_s = bytes(Fill::Mix, kem.nsk(), tag.wrapping_mul(3) + 2, seed);
    let ikm_e = bytes(Fill::Mix, kem.nsk(), tag.wrapping_mul(3) + 3, seed);
    let (sk_r, pk_r, _) = kem.derive_keypair(&ikm_r);
    let (sk_s, pk_s, _) = kem.derive_keypair(&ikm_s);
    Keys { sk_r, pk_r, sk_s, pk_s, ikm_e }
}

/// Mode parameters for a matching sender/receiver pair
pub fn mode_spec(mode: Mode, k: &Keys, psk: &[u8], psk_id: &[u8]) -> ModeSpec {
    ModeSpec {
        kind: mode.id(),
        psk: if mode.has_psk() { psk.to_vec() } else { vec![] },
        psk_id: if mode.has_psk() { psk_id.to_vec() } else { vec![] },
        sk_s: if mode.has_auth() { k.sk_s.clone() } else { vec![] },
        pk_s: if mode.has_auth() { k.pk_s.clone() } else { vec![] },
    }
}

/// R1's sender context for a ModeSpec
pub fn r1_setup_s(suite: SuiteId, m: &ModeSpec, pk_r: &[u8], info: &[u8], ikm_e: &[u8]) -> Option<(Vec<u8>, r1::Ctx)> {
    let auth = if m.mode().has_auth() { Some((&m.sk_s[..], &m.pk_s[..])) } else { None };
    r1::setup_s(suite, m.mode(), pk_r, info, &m.psk, &m.psk_id, auth, ikm_e)
}

/// R1's receiver context for a ModeSpec
pub fn r1_setup_r(suite: SuiteId, m: &ModeSpec, enc: &[u8], sk_r: &[u8], info: &[u8]) -> Option<r1::Ctx> {
    let pk_s = if m.mode().has_auth() { Some(&m.pk_s[..]) } else { None };
    r1::setup_r(suite, m.mode(), enc, sk_r, info, &m.psk, &m.psk_id, pk_s)
}

/// compare an observed byte result with the expected bytes
pub fn expect_bytes(out: &mut CaseOut, what: &str, got: &Obs<Vec<u8>>, want: &[u8]) -> bool {
    out.transitions += 1;
    if !want.is_empty() {
        out.nontrivial = true;
    }
    match got {
        Obs::Ok(g) if g[..] == *want => true,
        Obs::Ok(g) => {
            out.fail(format!("{}: got {} want {}", what, crate::obs::hx(g), crate::obs::hx(want)));
            false
        }
        other => {
            out.fail(format!("{}: got {} want Ok({})", what, other.class(), crate::obs::hx(want)));
            false
        }
    }
}

/// compare an observed result with an expected error
pub fn expect_err<T>(out: &mut CaseOut, what: &str, got: &Obs<T>, want: hpke::HpkeError) -> bool {
    out.transitions += 1;
    out.nontrivial = true;
    match got {
        Obs::Err(e) if *e == want => true,
        other => {
            out.fail(format!("{}: got {} want Err({:?})", what, other.class(), want));
            false
        }
    }
}

pub fn expect_err_k<T>(out: &mut CaseOut, key: &str, what: &str, got: &Obs<T>, want: hpke::HpkeError) -> bool {
    out.transitions += 1;
    out.nontrivial = true;
    match got {
        Obs::Err(e) if *e == want => true,
        other => {
            out.failk(key, format!("{}: got {} want Err({:?})", what, other.class(), want));
            false
        }
    }
}
