//! Generic bounded-exhaustive driver: enumerates the cases of a property, runs every one of them
//! (in parallel), collects coverage counts, writes replay files and the evidence file.

use serde::{de::DeserializeOwned, Serialize};
use serde_json::{json, Map, Value};
use std::collections::{BTreeMap, HashSet};
use std::path::PathBuf;
use std::sync::atomic::{AtomicBool, AtomicUsize, Ordering};
use std::sync::Mutex;
use std::time::Instant;

#[derive(Clone, Copy, Debug, PartialEq, Eq)]
pub enum Tier {
    Quick,
    Thorough,
}
impl Tier {
    pub fn name(self) -> &'static str {
        match self {
            Tier::Quick => "quick",
            Tier::Thorough => "thorough",
        }
    }
    pub fn thorough(self) -> bool {
        self == Tier::Thorough
    }
}

#[derive(Clone, Debug)]
pub struct Cfg {
    pub prop: String,
    pub tier: Tier,
    pub seed: u64,
    pub threads: usize,
    pub root: PathBuf,
    pub replay: Option<PathBuf>,
    /// wall-clock cap in seconds for one part; when it is hit no new case is started and the
    /// evidence says exhaustive:false
    pub wall_cap_s: u64,
    /// optional substring filter on part names (debugging)
    pub only_part: Option<String>,
}

#[derive(Clone, Debug, PartialEq, Eq, Serialize, serde::Deserialize)]
pub struct Mismatch {
    /// canonical key of the failing case family (matched against known_findings.json)
    pub key: String,
    pub msg: String,
}

pub fn mm(msg: impl Into<String>) -> Mismatch {
    Mismatch { key: String::new(), msg: msg.into() }
}
pub fn mmk(key: impl Into<String>, msg: impl Into<String>) -> Mismatch {
    Mismatch { key: key.into(), msg: msg.into() }
}

#[derive(Clone, Debug, Default, PartialEq, Eq)]
pub struct CaseOut {
    /// library calls whose result was compared with the oracle
    pub transitions: u64,
    /// at least one output of non-zero length or one specific error kind was predicted and compared
    pub nontrivial: bool,
    /// outcome class, for the "distinct outcomes" statistic
    pub outcome: String,
    pub mismatches: Vec<Mismatch>,
    /// free-form observations that are recorded but not judged
    pub notes: Vec<String>,
    /// model states touched by this case (engines that explore a model report them here)
    pub states: u64,
    /// failures of the machinery itself (reference model, witness search, ...): never a verdict
    pub machinery: Vec<String>,
}

impl CaseOut {
    pub fn new() -> Self {
        Self::default()
    }
    pub fn fail(&mut self, msg: impl Into<String>) {
        self.mismatches.push(mm(msg));
    }
    /// something went wrong in the harness / reference, not in the code under test
    pub fn fail_machinery(&mut self, msg: impl Into<String>) {
        self.machinery.push(msg.into());
    }
    pub fn failk(&mut self, key: impl Into<String>, msg: impl Into<String>) {
        self.mismatches.push(mmk(key, msg));
    }
    /// compare one observation; counts a transition
    pub fn eq<T: PartialEq + std::fmt::Debug>(&mut self, what: &str, got: &T, want: &T) -> bool {
        self.transitions += 1;
        if got != want {
            let (g, w) = (format!("{:?}", got), format!("{:?}", want));
            self.fail(format!("{}: got {} want {}", what, trunc(&g), trunc(&w)));
            false
        } else {
            true
        }
    }
    pub fn eqk<T: PartialEq + std::fmt::Debug>(&mut self, key: &str, what: &str, got: &T, want: &T) -> bool {
        self.transitions += 1;
        if got != want {
            let (g, w) = (format!("{:?}", got), format!("{:?}", want));
            self.failk(key, format!("{}: got {} want {}", what, trunc(&g), trunc(&w)));
            false
        } else {
            true
        }
    }
    pub fn check(&mut self, what: &str, cond: bool) -> bool {
        self.transitions += 1;
        if !cond {
            self.fail(what.to_string());
        }
        cond
    }
}

fn trunc(s: &str) -> String {
    if s.len() > 600 {
        format!("{}…({} chars)", &s[..600], s.len())
    } else {
        s.to_string()
    }
}

pub trait Part: Sync {
    type Case: Serialize + DeserializeOwned + Send + Sync + Clone;
    /// name of this part (engine + what it enumerates)
    fn name(&self) -> String;
    /// one sentence: how cases are enumerated and what makes one non-trivial
    fn rule(&self) -> String;
    /// bound description
    fn bound(&self, cfg: &Cfg) -> String;
    fn enumerate(&self, cfg: &Cfg) -> Vec<Self::Case>;
    fn run(&self, cfg: &Cfg, case: &Self::Case) -> CaseOut;
    /// whether the enumeration is a complete finite space under the stated bound
    fn exhaustive(&self) -> bool {
        true
    }
    /// a supporting pass adds violations if it finds any but decides nothing (e.g. a sampled, free-running
    /// run); it is listed separately in the evidence and does not enter the `exhaustive` flag
    fn supporting(&self) -> bool {
        false
    }
    /// whether run_part re-runs a sample of cases to check that observations are reproducible
    fn rerun_check(&self) -> bool {
        true
    }
    /// extra evidence (e.g. model-checker statistics) and machinery errors found while producing it
    fn extra(&self, _cfg: &Cfg) -> (Map<String, Value>, Vec<String>) {
        (Map::new(), vec![])
    }
}

#[derive(Default, Serialize, serde::Deserialize)]
pub struct PartReport {
    pub name: String,
    pub rule: String,
    pub bound: String,
    pub cases: u64,
    pub run: u64,
    pub distinct: u64,
    pub distinct_nontrivial: u64,
    pub transitions: u64,
    pub states: u64,
    pub validated: u64,
    pub exhaustive: bool,
    pub outcomes: BTreeMap<String, u64>,
    pub samples: Vec<Value>,
    pub violations: Vec<(Value, Vec<Mismatch>)>,
    pub notes: BTreeMap<String, u64>,
    pub determinism_checks: u64,
    pub machinery_errors: Vec<String>,
    pub wall_s: f64,
    pub extra: Map<String, Value>,
    #[serde(default)]
    pub supporting: bool,
}

fn fnv(s: &str) -> u64 {
    let mut h = 0xcbf29ce484222325u64;
    for b in s.as_bytes() {
        h ^= *b as u64;
        h = h.wrapping_mul(0x100000001b3);
    }
    h
}

/// Runs one part to completion
pub fn run_part<P: Part>(p: &P, cfg: &Cfg) -> PartReport {
    let t0 = Instant::now();
    let cases = p.enumerate(cfg);
    let n = cases.len();
    let next = AtomicUsize::new(0);
    let capped = AtomicBool::new(false);
    struct Acc {
        run: u64,
        transitions: u64,
        states: u64,
        validated: u64,
        hashes: Vec<(u64, bool)>,
        outcomes: BTreeMap<String, u64>,
        notes: BTreeMap<String, u64>,
        violations: Vec<(usize, Vec<Mismatch>)>,
        det: u64,
        errs: Vec<String>,
    }
    let accs: Mutex<Vec<Acc>> = Mutex::new(vec![]);
    // crash / hang attribution: with HPKE_MC_PROGRESS_DIR set every worker records the case it is about to
    // run, so that the driver can tell which case was in flight if the process aborts or never returns
    let progress_dir = std::env::var("HPKE_MC_PROGRESS_DIR").ok();
    let part_name = p.name();
    let worker_id = AtomicUsize::new(0);
    std::thread::scope(|sc| {
        for _ in 0..cfg.threads.max(1) {
            sc.spawn(|| {
                let wid = worker_id.fetch_add(1, Ordering::Relaxed);
                let progress_file = progress_dir.as_ref().map(|d| std::path::Path::new(d).join(format!("inflight.{}.json", wid)));
                let mut a = Acc {
                    run: 0,
                    transitions: 0,
                    states: 0,
                    validated: 0,
                    hashes: vec![],
                    outcomes: BTreeMap::new(),
                    notes: BTreeMap::new(),
                    violations: vec![],
                    det: 0,
                    errs: vec![],
                };
                loop {
                    let i = next.fetch_add(1, Ordering::Relaxed);
                    if i >= n {
                        break;
                    }
                    if t0.elapsed().as_secs() > cfg.wall_cap_s {
                        capped.store(true, Ordering::Relaxed);
                        break;
                    }
                    let c = &cases[i];
                    if let Some(f) = &progress_file {
                        let body = json!({"property": cfg.prop, "part": part_name, "tier": cfg.tier.name(), "seed": cfg.seed, "case": c, "mismatches": [{"key": "", "msg": "in flight when the engine died or stopped responding"}]});
                        let _ = std::fs::write(f, body.to_string());
                    }
                    let r = std::panic::catch_unwind(std::panic::AssertUnwindSafe(|| p.run(cfg, c)));
                    let out = match r {
                        Ok(o) => o,
                        Err(_) => {
                            a.errs.push(format!(
                                "harness panic (not a verdict) in case #{}: {}",
                                i,
                                serde_json::to_string(c).unwrap_or_default()
                            ));
                            continue;
                        }
                    };
                    // replay-determinism: the same case must give the same observations
                    if p.rerun_check() && (i < 64 || i % 97 == 0) {
                        let again = p.run(cfg, c);
                        a.det += 1;
                        if again != out {
                            // two runs of one case differ: the harness owns every input, so something else decides the
                            // outcome. That alone is "no verdict" (hidden state is C18's subject) - but a deviation from
                            // the oracle that WAS observed in one of the runs stays a violation of this property
                            a.errs.push(format!("nondeterministic case #{}: two runs differ", i));
                            if out.mismatches.is_empty() && again.mismatches.is_empty() {
                                continue;
                            }
                            if out.mismatches.is_empty() {
                                a.run += 1;
                                a.transitions += again.transitions;
                                a.violations.push((i, again.mismatches));
                                continue;
                            }
                        }
                    }
                    if !out.machinery.is_empty() {
                        for m in &out.machinery {
                            a.errs.push(format!("case #{} {}: {}", i, serde_json::to_string(c).unwrap_or_default().chars().take(300).collect::<String>(), m));
                        }
                        continue;
                    }
                    a.run += 1;
                    a.transitions += out.transitions;
                    a.states += out.states;
                    let js = serde_json::to_string(c).unwrap_or_default();
                    a.hashes.push((fnv(&js), out.nontrivial));
                    *a.outcomes.entry(out.outcome.clone()).or_insert(0) += 1;
                    for nt in &out.notes {
                        *a.notes.entry(nt.clone()).or_insert(0) += 1;
                    }
                    if out.mismatches.is_empty() {
                        a.validated += 1;
                    } else {
                        a.violations.push((i, out.mismatches));
                    }
                }
                if let Some(f) = &progress_file {
                    let _ = std::fs::remove_file(f);
                }
                accs.lock().unwrap().push(a);
            });
        }
    });
    let mut rep = PartReport {
        name: p.name(),
        rule: p.rule(),
        bound: p.bound(cfg),
        cases: n as u64,
        exhaustive: p.exhaustive() && !capped.load(Ordering::Relaxed),
        supporting: p.supporting(),
        ..Default::default()
    };
    let mut all: HashSet<u64> = HashSet::new();
    let mut nt: HashSet<u64> = HashSet::new();
    let mut viol: Vec<(usize, Vec<Mismatch>)> = vec![];
    for a in accs.into_inner().unwrap() {
        rep.run += a.run;
        rep.transitions += a.transitions;
        rep.states += a.states;
        rep.validated += a.validated;
        rep.determinism_checks += a.det;
        for (h, f) in a.hashes {
            all.insert(h);
            if f {
                nt.insert(h);
            }
        }
        for (k, v) in a.outcomes {
            *rep.outcomes.entry(k).or_insert(0) += v;
        }
        for (k, v) in a.notes {
            *rep.notes.entry(k).or_insert(0) += v;
        }
        viol.extend(a.violations);
        rep.machinery_errors.extend(a.errs);
    }
    viol.sort_by_key(|v| v.0);
    rep.distinct = all.len() as u64;
    rep.distinct_nontrivial = nt.len() as u64;
    for (i, m) in viol {
        rep.violations.push((serde_json::to_value(&cases[i]).unwrap(), m));
    }
    if n > 0 {
        for i in [0, n / 2, n - 1] {
            rep.samples.push(serde_json::to_value(&cases[i]).unwrap());
        }
    }
    if capped.load(Ordering::Relaxed) {
        rep.machinery_errors.retain(|_| true);
        rep.extra.insert("wall_cap_hit_s".into(), json!(cfg.wall_cap_s));
    }
    let (extra, errs) = p.extra(cfg);
    for (k, v) in extra {
        rep.extra.insert(k, v);
    }
    rep.machinery_errors.extend(errs);
    rep.wall_s = t0.elapsed().as_secs_f64();
    rep
}

/// Re-executes one case from a replay file
pub fn replay_part<P: Part>(p: &P, cfg: &Cfg, case: &Value) -> Result<CaseOut, String> {
    let c: P::Case = serde_json::from_value(case.clone()).map_err(|e| format!("cannot parse case: {}", e))?;
    Ok(p.run(cfg, &c))
}

// ------------------------------------------------------------------------------------------------
// Known findings, verdict, evidence
// ------------------------------------------------------------------------------------------------

#[derive(Clone, Debug, serde::Deserialize)]
pub struct Finding {
    pub property: String,
    pub key: String,
    pub status: String,
    #[serde(default)]
    pub commit: Option<String>,
    pub what: String,
}

pub fn load_findings(cfg: &Cfg) -> Vec<Finding> {
    let p = cfg.root.join("known_findings.json");
    match std::fs::read_to_string(&p) {
        Ok(s) => {
            let v: Value = serde_json::from_str(&s).expect("known_findings.json is not valid JSON");
            serde_json::from_value(v["findings"].clone()).expect("known_findings.json: bad 'findings'")
        }
        Err(_) => vec![],
    }
}

pub struct Summary {
    pub violations: u64,
    pub machinery_errors: u64,
}

/// Prints VIOLATION / KNOWN-FINDING lines, writes replay files and the evidence file.
pub fn finish(cfg: &Cfg, level: &str, parts: Vec<PartReport>, assumptions: Vec<String>, t0: Instant) -> Summary {
    let findings = load_findings(cfg);
    let known: Vec<&Finding> = findings
        .iter()
        .filter(|f| f.property == cfg.prop && f.status == "known")
        .collect();
    let rdir = cfg.root.join("replays").join(&cfg.prop);
    let mut nviol = 0u64;
    let mut known_hit: BTreeMap<String, u64> = BTreeMap::new();
    let mut nerr = 0u64;
    let mut part_vals = vec![];
    let mut tot = (0u64, 0u64, 0u64, 0u64, 0u64, 0u64, 0u64); // cases, run, distinct, dnt, transitions, states, validated
    let mut samples = vec![];
    let mut exhaustive = true;
    let mut outcomes_total: BTreeMap<String, u64> = BTreeMap::new();
    for rep in &parts {
        for e in &rep.machinery_errors {
            eprintln!("MACHINERY-ERROR property={} part={} {}", cfg.prop, rep.name, e);
            nerr += 1;
        }
        for (case, ms) in &rep.violations {
            // a violation is "known" only if every mismatch of the case has a listed key
            let unlisted: Vec<&Mismatch> = ms
                .iter()
                .filter(|m| m.key.is_empty() || !known.iter().any(|f| f.key == m.key))
                .collect();
            if unlisted.is_empty() {
                for m in ms {
                    *known_hit.entry(m.key.clone()).or_insert(0) += 1;
                }
                continue;
            }
            nviol += 1;
            if nviol <= 25 {
                let _ = std::fs::create_dir_all(&rdir);
                let path = rdir.join(format!("{}-{}.json", rep.name.replace(|c: char| !c.is_alphanumeric(), "_"), nviol));
                let body = json!({
                    "property": cfg.prop, "part": rep.name, "tier": cfg.tier.name(), "seed": cfg.seed,
                    "case": case, "mismatches": ms,
                });
                let _ = std::fs::write(&path, serde_json::to_string_pretty(&body).unwrap());
                println!("VIOLATION property={} replay={}", cfg.prop, path.display());
                for m in unlisted.iter().take(3) {
                    println!("  part={} {}", rep.name, m.msg);
                }
            }
        }
        tot.0 += rep.cases;
        tot.1 += rep.run;
        tot.2 += rep.distinct;
        tot.3 += rep.distinct_nontrivial;
        tot.4 += rep.transitions;
        tot.5 += rep.states;
        tot.6 += rep.validated;
        if !rep.supporting {
            exhaustive &= rep.exhaustive && rep.run == rep.cases;
        }
        for s in rep.samples.iter().take(2) {
            samples.push(json!({"part": rep.name, "case": s}));
        }
        for (k, v) in &rep.outcomes {
            *outcomes_total.entry(k.clone()).or_insert(0) += v;
        }
        let mut pv = json!({
            "name": rep.name, "rule": rep.rule, "bound": rep.bound, "cases_enumerated": rep.cases, "cases_run": rep.run,
            "distinct_cases": rep.distinct, "distinct_nontrivial": rep.distinct_nontrivial,
            "transitions": rep.transitions, "model_states": rep.states, "validated": rep.validated,
            "violating_cases": rep.violations.len(), "exhaustive_within_bound": rep.exhaustive && rep.run == rep.cases,
            "distinct_outcomes": rep.outcomes.len(), "outcomes": rep.outcomes, "observations_not_judged": rep.notes,
            "replay_determinism_checks": rep.determinism_checks, "wall_s": (rep.wall_s * 100.0).round() / 100.0,
            "supporting_pass_only": rep.supporting,
        });
        for (k, v) in &rep.extra {
            pv[k] = v.clone();
        }
        part_vals.push(pv);
    }
    if nviol > 25 {
        println!("({} further violating cases not written out)", nviol - 25);
    }
    for f in &known {
        let hits = known_hit.get(&f.key).copied().unwrap_or(0);
        if hits > 0 {
            println!("KNOWN-FINDING: property={} {} [{} cases; key {}]", cfg.prop, f.what, hits, f.key);
        }
    }
    let states = if tot.5 > 0 { tot.5 } else { tot.2 };
    let ev = json!({
        "property_id": cfg.prop,
        "tier": cfg.tier.name(),
        "seed": cfg.seed,
        "level": level,
        "coverage": {
            "states": states,
            "transitions": tot.4,
            "traces_validated_against_impl": tot.6,
            "evaluations": tot.1,
            "distinct_nontrivial": tot.3,
            "rule": parts.iter().map(|p| format!("[{}] {}", p.name, p.rule)).collect::<Vec<_>>().join(" | "),
            "samples": samples,
            "exhaustive": exhaustive,
            "bound": parts.iter().map(|p| format!("[{}] {}", p.name, p.bound)).collect::<Vec<_>>().join(" | "),
            "distinct_outcomes": outcomes_total.len(),
            "cases_enumerated": tot.0,
            "distinct_cases": tot.2,
            "known_findings_hit": known_hit,
            "machinery_errors": nerr,
            "parts": part_vals,
            "explanation": "states = distinct enumerated cases (or model states where a model is explored); transitions = library calls whose result was compared with the oracle; traces_validated_against_impl = cases whose whole predicted observation sequence matched the implementation",
        },
        "assumptions": assumptions,
        "wall_s": (t0.elapsed().as_secs_f64() * 100.0).round() / 100.0,
        "violations": nviol,
    });
    let edir = cfg.root.join("evidence");
    let _ = std::fs::create_dir_all(&edir);
    std::fs::write(edir.join(format!("{}.json", cfg.prop)), serde_json::to_string_pretty(&ev).unwrap()).expect("cannot write evidence");
    println!(
        "property={} tier={} cases={} transitions={} validated={} distinct_outcomes={} violations={} machinery_errors={} exhaustive={} wall={:.1}s",
        cfg.prop, cfg.tier.name(), tot.1, tot.4, tot.6, outcomes_total.len(), nviol, nerr, exhaustive, t0.elapsed().as_secs_f64()
    );
    Summary { violations: nviol, machinery_errors: nerr }
}
