//! The abstract session model M, its stateright check, and the engines that bind it to the
//! implementation: E2a (every edge of M(W) replayed on real contexts under several embeddings of the
//! scaled-down counter into the real 64-bit counter) and E2b (unmerged history trees on live contexts).

use crate::engine::{CaseOut, Cfg, Part};
use crate::obs::Obs;
use crate::props::{keys, mode_spec, r1_setup_s, Keys};
use crate::refmodel::{self as r1, Aead, Kdf, Kem, Mode, SuiteId};
use crate::rng::{bytes, splitmix, Fill, ScriptRng};
use crate::suites::{suite_ops, ModeSpec, RCtx, SCtx, SuiteOps};
use hpke::HpkeError;
use serde::{Deserialize, Serialize};
use stateright::{Checker, Model, Property};

// ------------------------------------------------------------------------------------------------
// Fixture: one concrete session whose keys R1 knows
// ------------------------------------------------------------------------------------------------

pub struct Fixture {
    pub suite: SuiteId,
    pub ops: Box<dyn SuiteOps>,
    pub k: Keys,
    pub m: ModeSpec,
    pub info: Vec<u8>,
    pub enc: Vec<u8>,
    pub refctx: r1::Ctx,
    seed: u64,
}

impl Fixture {
    pub fn new(suite: SuiteId, mode: Mode, seed: u64) -> Result<Fixture, String> {
        let k = keys(suite.kem, 0x5e55 + mode.id() as u64, seed);
        let info = bytes(Fill::Mix, 20, 10, seed);
        let m = mode_spec(mode, &k, &bytes(Fill::Mix, 32, 11, seed), &bytes(Fill::Mix, 22, 12, seed));
        let (enc, refctx) = r1_setup_s(suite, &m, &k.pk_r, &info, &k.ikm_e).ok_or("R1 setup failed (reference bug)")?;
        Ok(Fixture { suite, ops: suite_ops(suite), k, m, info, enc, refctx, seed })
    }
    pub fn sender(&self) -> Result<Box<dyn SCtx>, String> {
        let mut rng = ScriptRng::new(&self.k.ikm_e);
        let (enc, s) = self.ops.setup_sender(&self.m, &self.k.pk_r, &self.info, &mut rng).need("setup_sender")?;
        if enc != self.enc {
            return Err("setup_sender: enc differs from R1 (see C02)".into());
        }
        Ok(s)
    }
    pub fn receiver(&self) -> Result<Box<dyn RCtx>, String> {
        self.ops.setup_receiver(&self.m, &self.k.sk_r, &self.enc, &self.info).need("setup_receiver")
    }
    /// The message the model's sender seals at absolute position `pos`: (pt, aad, ct || tag)
    pub fn msg(&self, pos: u64) -> (Vec<u8>, Vec<u8>, Vec<u8>) {
        let pl = [5usize, 0, 16, 1, 33][(pos % 5) as usize];
        let al = [3usize, 0, 17][(pos % 3) as usize];
        let pt = bytes(Fill::Mix, pl, splitmix(pos) | 1, self.seed);
        let mut aad = bytes(Fill::Mix, al, splitmix(pos ^ 0xaad) | 1, self.seed);
        aad.extend_from_slice(&pos.to_be_bytes()); // aads of different positions always differ
        let ct = self.refctx.seal_at(pos as u128, &aad, &pt);
        (pt, aad, ct)
    }
    pub fn nt(&self) -> usize {
        self.suite.aead.nt()
    }
}

// ------------------------------------------------------------------------------------------------
// The abstract model M(W)
// ------------------------------------------------------------------------------------------------

#[derive(Clone, Copy, Debug, Hash, PartialEq, Eq, Serialize, Deserialize)]
pub enum Api {
    Alloc,
    InPlace,
}
#[derive(Clone, Copy, Debug, Hash, PartialEq, Eq, Serialize, Deserialize)]
pub enum Role {
    S,
    R,
}
#[derive(Clone, Copy, Debug, Hash, PartialEq, Eq, Serialize, Deserialize)]
pub enum Corr {
    None,
    FlipCt,
    FlipTag,
    WrongAad,
    DropLast,
    ShortTag,
    Append,
    TagOfOther,
    AadOfOther,
    Zeros,
    Empty,
}
pub const CORRS: [Corr; 11] = [
    Corr::None, Corr::FlipCt, Corr::FlipTag, Corr::WrongAad, Corr::DropLast, Corr::ShortTag, Corr::Append, Corr::TagOfOther, Corr::AadOfOther, Corr::Zeros, Corr::Empty,
];

#[derive(Clone, Copy, Debug, Hash, PartialEq, Eq, Serialize, Deserialize)]
pub enum Act {
    Seal(Api),
    Deliver { j: u16, c: Corr, api: Api },
    Export(Role),
}

/// `(s_pos, s_dead, r_pos, r_dead)` plus history variables that only serve the model's own invariants
#[derive(Clone, Debug, Hash, PartialEq, Eq, Serialize, Deserialize)]
pub struct MState {
    pub s_pos: u16,
    pub s_dead: bool,
    pub r_pos: u16,
    pub r_dead: bool,
    /// positions whose nonce has been used by a successful seal (bit mask)
    pub used: u32,
    pub nonce_reused: bool,
    /// positions of the messages the receiver has accepted (bit mask)
    pub accepted: u32,
    /// a rejected delivery has been followed by an accepted one (non-vacuity witness)
    pub rejected_once: bool,
    pub accepted_after_reject: bool,
}

#[derive(Clone, Copy, Debug, PartialEq, Eq)]
pub enum Expect {
    SealOk(u16),
    SealLimit,
    OpenOk(u16),
    OpenErr,
    OpenLimit,
    Export,
}

#[derive(Clone)]
pub struct M {
    pub w: u8,
    /// which actions the adversary/caller alphabet contains
    pub focus: Focus,
}

#[derive(Clone, Copy, Debug, PartialEq, Eq, Serialize, Deserialize)]
pub enum Focus {
    /// C04: sender actions (and exports on the sender)
    Sender,
    /// C05: deliveries (and the seals that make messages exist)
    Receiver,
    /// C11: exports in every state
    Export,
    All,
}

impl M {
    pub fn last(&self) -> u16 {
        (1u16 << self.w) - 1
    }
    pub fn init(&self) -> MState {
        MState { s_pos: 0, s_dead: false, r_pos: 0, r_dead: false, used: 0, nonce_reused: false, accepted: 0, rejected_once: false, accepted_after_reject: false }
    }
    /// number of messages sealed so far
    pub fn sealed(&self, s: &MState) -> u16 {
        if s.s_dead { self.last() + 1 } else { s.s_pos }
    }
    pub fn step(&self, s: &MState, a: &Act) -> (MState, Expect) {
        let mut n = s.clone();
        match *a {
            Act::Seal(_) => {
                if s.s_dead {
                    (n, Expect::SealLimit)
                } else {
                    if s.used & (1 << s.s_pos) != 0 {
                        n.nonce_reused = true;
                    }
                    n.used |= 1 << s.s_pos;
                    if s.s_pos == self.last() {
                        n.s_dead = true;
                    } else {
                        n.s_pos += 1;
                    }
                    (n, Expect::SealOk(s.s_pos))
                }
            }
            Act::Deliver { j, c, .. } => {
                if s.r_dead {
                    (n, Expect::OpenLimit)
                } else if j == s.r_pos && c == Corr::None {
                    if s.rejected_once {
                        n.accepted_after_reject = true;
                    }
                    n.accepted |= 1 << j;
                    if s.r_pos == self.last() {
                        n.r_dead = true;
                    } else {
                        n.r_pos += 1;
                    }
                    (n, Expect::OpenOk(j))
                } else {
                    n.rejected_once = true;
                    (n, Expect::OpenErr)
                }
            }
            Act::Export(_) => (n, Expect::Export),
        }
    }
    pub fn acts(&self, s: &MState) -> Vec<Act> {
        let mut v = vec![];
        let f = self.focus;
        if f != Focus::Export {
            v.push(Act::Seal(Api::Alloc));
            v.push(Act::Seal(Api::InPlace));
        }
        if f == Focus::Receiver || f == Focus::All {
            for j in 0..self.sealed(s) {
                for c in CORRS {
                    for api in [Api::Alloc, Api::InPlace] {
                        v.push(Act::Deliver { j, c, api });
                    }
                }
            }
            // pure garbage needs no sealed message
            if self.sealed(s) == 0 {
                for c in [Corr::Zeros, Corr::Empty] {
                    for api in [Api::Alloc, Api::InPlace] {
                        v.push(Act::Deliver { j: 0, c, api });
                    }
                }
            }
        }
        if f == Focus::Export {
            // deliveries of the next message only, so that all (s_pos, r_pos) pairs stay reachable
            v.push(Act::Seal(Api::Alloc));
            if s.r_pos < self.sealed(s) || s.r_dead {
                v.push(Act::Deliver { j: s.r_pos, c: Corr::None, api: Api::Alloc });
            }
            if self.sealed(s) > 0 {
                v.push(Act::Deliver { j: 0, c: Corr::FlipTag, api: Api::InPlace });
            }
        }
        if f != Focus::Receiver {
            v.push(Act::Export(Role::S));
            v.push(Act::Export(Role::R));
        }
        v
    }
}

impl Model for M {
    type State = MState;
    type Action = Act;
    fn init_states(&self) -> Vec<MState> {
        vec![self.init()]
    }
    fn actions(&self, s: &MState, out: &mut Vec<Act>) {
        out.extend(self.acts(s));
    }
    fn next_state(&self, s: &MState, a: Act) -> Option<MState> {
        Some(self.step(s, &a).0)
    }
    fn properties(&self) -> Vec<Property<Self>> {
        vec![
            Property::always("I1 no two successful seals share a nonce", |_, s: &MState| !s.nonce_reused),
            Property::always("I3 the accepted messages are exactly those below the receiver position, i.e. accepted in order, each once", |m: &M, s: &MState| {
                let n = if s.r_dead { m.last() as u32 + 1 } else { s.r_pos as u32 };
                s.accepted == if n >= 32 { u32::MAX } else { (1u32 << n) - 1 }
            }),
            Property::always("I2 an exhausted side stays at the last position (latched)", |m: &M, s: &MState| (!s.s_dead || s.s_pos == m.last()) && (!s.r_dead || s.r_pos == m.last())),
            Property::always("I3b receiver never ahead of sender", |m: &M, s: &MState| {
                let sealed = m.sealed(s);
                let accepted = if s.r_dead { m.last() + 1 } else { s.r_pos };
                accepted <= sealed
            }),
            Property::always("I1b used nonces are exactly the positions below the sender position", |m: &M, s: &MState| {
                let sealed = m.sealed(s) as u32;
                s.used == if sealed >= 32 { u32::MAX } else { (1u32 << sealed) - 1 }
            }),
        ]
    }
}

#[derive(Clone, Debug, Default, Serialize, Deserialize)]
pub struct ModelStats {
    pub w: u8,
    pub unique_states: usize,
    pub generated: usize,
    pub max_depth: usize,
    pub violated: Vec<String>,
    pub bfs_states: usize,
    pub bfs_edges: usize,
    pub reach_sender_exhausted: bool,
    pub reach_receiver_exhausted: bool,
    pub reach_accept_after_reject: bool,
}

/// Checks M(W) with stateright (complete reachable graph, all `always` properties), and enumerates
/// the same graph with a plain BFS over the model's own transition function; the two state counts
/// must agree. Returns the stats and the list of reachable states.
pub fn check_model(w: u8, focus: Focus) -> (ModelStats, Vec<MState>) {
    let m = M { w, focus };
    let c = m.clone().checker().threads(4).spawn_bfs().join();
    let mut st = ModelStats { w, unique_states: c.unique_state_count(), generated: c.state_count(), max_depth: c.max_depth(), ..Default::default() };
    for (name, _path) in c.discoveries() {
        st.violated.push(name.to_string());
    }
    // own BFS
    let mut seen: std::collections::HashSet<MState> = std::collections::HashSet::new();
    let mut order = vec![];
    let mut q = std::collections::VecDeque::new();
    seen.insert(m.init());
    q.push_back(m.init());
    while let Some(s) = q.pop_front() {
        st.reach_sender_exhausted |= s.s_dead;
        st.reach_receiver_exhausted |= s.r_dead;
        st.reach_accept_after_reject |= s.accepted_after_reject;
        for a in m.acts(&s) {
            st.bfs_edges += 1;
            let (n, _) = m.step(&s, &a);
            if seen.insert(n.clone()) {
                q.push_back(n);
            }
        }
        order.push(s);
    }
    st.bfs_states = order.len();
    (st, order)
}

// ------------------------------------------------------------------------------------------------
// Concretisation
// ------------------------------------------------------------------------------------------------

/// A delivery as concrete bytes
pub struct Delivery {
    pub body: Vec<u8>,
    pub tag: Vec<u8>,
    pub aad: Vec<u8>,
    /// for the allocating API: the bytes handed to open() (may be shorter than a tag)
    pub wire: Vec<u8>,
}

/// Builds the bytes the adversary delivers for message position `pos` with corruption `c`.
/// `other` is the position whose tag/aad is substituted by TagOfOther / AadOfOther.
pub fn deliver_bytes(fx: &Fixture, pos: u64, other: u64, c: Corr, api: Api) -> Delivery {
    let nt = fx.nt();
    let (_pt, aad, ct) = fx.msg(pos);
    let (_, oaad, oct) = fx.msg(other);
    let mut body = ct[..ct.len() - nt].to_vec();
    let mut tag = ct[ct.len() - nt..].to_vec();
    let mut aad = aad;
    let mut wire_override: Option<Vec<u8>> = None;
    match c {
        Corr::None => {}
        Corr::FlipCt => {
            if body.is_empty() {
                tag[0] ^= 0x01;
            } else {
                let i = body.len() / 2;
                body[i] ^= 0x01;
            }
        }
        Corr::FlipTag => {
            let l = tag.len();
            tag[l - 1] ^= 0x80;
        }
        Corr::WrongAad => {
            let l = aad.len();
            aad[l - 1] ^= 0x01;
        }
        Corr::DropLast => match api {
            Api::Alloc => {
                let mut w = ct.clone();
                w.pop();
                wire_override = Some(w);
            }
            Api::InPlace => {
                if body.is_empty() {
                    tag[nt / 2] ^= 0x10;
                } else {
                    body.pop();
                }
            }
        },
        Corr::ShortTag => match api {
            Api::Alloc => wire_override = Some(ct[..nt - 1].to_vec()),
            Api::InPlace => {
                if body.is_empty() {
                    tag[1] ^= 0x02;
                } else {
                    body.clear();
                }
            }
        },
        Corr::Append => match api {
            Api::Alloc => {
                let mut w = ct.clone();
                w.push(0);
                wire_override = Some(w);
            }
            Api::InPlace => body.push(0),
        },
        Corr::TagOfOther => tag = oct[oct.len() - nt..].to_vec(),
        Corr::AadOfOther => aad = oaad,
        Corr::Zeros => {
            body = vec![0u8; 16];
            tag = vec![0u8; nt];
        }
        Corr::Empty => {
            body = vec![];
            tag = vec![0u8; nt];
            if api == Api::Alloc {
                wire_override = Some(vec![]);
            }
        }
    }
    let wire = wire_override.unwrap_or_else(|| {
        let mut w = body.clone();
        w.extend_from_slice(&tag);
        w
    });
    Delivery { body, tag, aad, wire }
}

pub const KEY_C05_SHORT_AFTER_EXHAUSTION: &str = "C05:open:alloc:post-exhaustion:len<Nt";

/// Executes one delivery on a live receiver and compares with what R1 (bytes) and the model
/// (`expect`, when given) say. `r_pos`: absolute position the receiver is at (None = exhausted).
pub fn run_delivery(out: &mut CaseOut, fx: &Fixture, r: &mut dyn RCtx, r_pos: Option<u64>, d: &Delivery, api: Api, expect: Option<Expect>, what: &str) {
    // R1's verdict on the concrete bytes
    let ref_res: Result<Vec<u8>, r1::CtxErr> = match r_pos {
        None => Err(r1::CtxErr::MessageLimitReached),
        Some(p) => {
            let mut rc = fx.refctx.clone();
            rc.seq = p as u128;
            match api {
                Api::Alloc => rc.open(&d.aad, &d.wire),
                Api::InPlace => {
                    let mut w = d.body.clone();
                    w.extend_from_slice(&d.tag);
                    rc.open(&d.aad, &w)
                }
            }
        }
    };
    if let Some(e) = expect {
        let agree = match (&ref_res, e) {
            (Ok(_), Expect::OpenOk(_)) => true,
            (Err(r1::CtxErr::OpenError), Expect::OpenErr) => true,
            (Err(r1::CtxErr::MessageLimitReached), Expect::OpenLimit) => true,
            _ => false,
        };
        if !agree {
            out.fail_machinery(format!("{}: abstract model ({:?}) and R1 ({:?}) disagree", what, e, ref_res.as_ref().map(|_| "Ok")));
            return;
        }
    }
    let before = r.seq_state();
    out.transitions += 1;
    out.nontrivial = true;
    let (got, buf_after, buf_before): (Obs<Vec<u8>>, Option<Vec<u8>>, Vec<u8>) = match api {
        Api::Alloc => (r.open(&d.wire, &d.aad), None, vec![]),
        Api::InPlace => {
            let mut buf = d.body.clone();
            let o = r.open_ip(&mut buf, &d.aad, &d.tag);
            (o.map(|_| vec![]), Some(buf), d.body.clone())
        }
    };
    let after = r.seq_state();
    match &ref_res {
        Ok(pt) => {
            let ok = match (&got, &buf_after) {
                (Obs::Ok(v), None) => v == pt,
                (Obs::Ok(_), Some(b)) => b == pt,
                _ => false,
            };
            if !ok {
                out.fail(format!("{}: valid in-sequence message not opened to its plaintext: got {} (state {:?})", what, got.class(), before));
            }
            // success advances by exactly one (or latches exhaustion at the last sequence number)
            let want = if before.0 == u64::MAX { (u64::MAX, true) } else { (before.0 + 1, false) };
            if after != want {
                out.fail(format!("{}: after a successful open the sequence state is {:?}, want {:?}", what, after, want));
            }
        }
        Err(r1::CtxErr::OpenError) => {
            match &got {
                Obs::Err(HpkeError::OpenError) => {}
                o => out.fail(format!("{}: invalid delivery: got {} want Err(OpenError) (state {:?})", what, o.class(), before)),
            }
            if after != before {
                out.fail(format!("{}: a rejected delivery changed the sequence state {:?} -> {:?}", what, before, after));
            }
        }
        Err(_) => {
            match &got {
                Obs::Err(HpkeError::MessageLimitReached) => {}
                o => {
                    let key = if api == Api::Alloc && d.wire.len() < fx.nt() { KEY_C05_SHORT_AFTER_EXHAUSTION } else { "" };
                    out.failk(key, format!("{}: exhausted receiver: got {} want Err(MessageLimitReached) (input {} bytes)", what, o.class(), d.wire.len()));
                }
            }
            if let Some(b) = &buf_after {
                if *b != buf_before {
                    out.fail(format!("{}: buffer modified although MessageLimitReached was returned", what));
                }
            }
            if after != before {
                out.fail(format!("{}: exhausted receiver changed its sequence state {:?} -> {:?}", what, before, after));
            }
        }
    }
}

/// Executes one seal on a live sender at absolute position `s_pos` (None = exhausted)
pub fn run_seal(out: &mut CaseOut, fx: &Fixture, s: &mut dyn SCtx, s_pos: Option<u64>, api: Api, what: &str) {
    let before = s.seq_state();
    let pos_for_msg = s_pos.unwrap_or(u64::MAX);
    let (pt, aad, ct) = fx.msg(pos_for_msg);
    out.transitions += 1;
    out.nontrivial = true;
    let (got, buf): (Obs<Vec<u8>>, Option<Vec<u8>>) = match api {
        Api::Alloc => (s.seal(&pt, &aad), None),
        Api::InPlace => {
            let mut b = pt.clone();
            let o = s.seal_ip(&mut b, &aad);
            (o.map(|tag| { let mut v = b.clone(); v.extend_from_slice(&tag); v }), Some(b))
        }
    };
    let after = s.seq_state();
    match s_pos {
        Some(p) => {
            match &got {
                Obs::Ok(v) if *v == ct => {}
                Obs::Ok(v) => out.fail(format!("{}: ciphertext at sequence {} is not Seal(key, base_nonce XOR I2OSP({}), aad, pt): got {} want {}", what, p, p, crate::obs::hx(v), crate::obs::hx(&ct))),
                o => out.fail(format!("{}: seal at sequence {}: {}", what, p, o.class())),
            }
            let want = if p == u64::MAX { (u64::MAX, true) } else { (p + 1, false) };
            if after != want {
                out.fail(format!("{}: after sealing at {} the sequence state is {:?}, want {:?}", what, p, after, want));
            }
        }
        None => {
            match &got {
                Obs::Err(HpkeError::MessageLimitReached) => {}
                o => out.fail(format!("{}: exhausted sender: got {} want Err(MessageLimitReached)", what, o.class())),
            }
            if let Some(b) = &buf {
                if *b != pt {
                    out.fail(format!("{}: caller's buffer modified although MessageLimitReached was returned", what));
                }
            }
            if after != before {
                out.fail(format!("{}: exhausted sender changed its sequence state {:?} -> {:?}", what, before, after));
            }
        }
    }
}

pub fn run_export(out: &mut CaseOut, fx: &Fixture, got: Obs<Vec<u8>>, ctx: &[u8], l: usize, what: &str) {
    out.transitions += 1;
    out.nontrivial = true;
    match fx.refctx.export(ctx, l) {
        Ok(want) => match got {
            Obs::Ok(v) if v == want => {}
            o => out.fail(format!("{}: export(L={}) = {} differs from LabeledExpand(exporter_secret, \"sec\", ctx, L)", what, l, o.class())),
        },
        Err(_) => match got {
            Obs::Err(HpkeError::KdfOutputTooLong) => {}
            o => out.fail(format!("{}: export(L={}): got {} want Err(KdfOutputTooLong)", what, l, o.class())),
        },
    }
}

/// Puts a fresh sender into the concrete state (pos | exhausted)
pub fn sender_at(fx: &Fixture, pos: Option<u64>) -> Result<Box<dyn SCtx>, String> {
    let mut s = fx.sender()?;
    match pos {
        Some(p) => {
            s.set_seq(p);
            if s.seq_state() != (p, false) {
                return Err(format!("hook: sender state after set_seq({}) is {:?}", p, s.seq_state()));
            }
        }
        None => {
            // exhaustion is reached the real way: the last sequence number is used by a real seal
            s.set_seq(u64::MAX);
            if !s.seal(b"last", b"").is_ok() {
                return Err("sender: the seal at sequence 2^64-1 failed".into());
            }
            if s.seq_state() != (u64::MAX, true) {
                return Err(format!("sender: state after sealing at 2^64-1 is {:?}, want (2^64-1, true)", s.seq_state()));
            }
        }
    }
    Ok(s)
}

pub fn receiver_at(fx: &Fixture, pos: Option<u64>) -> Result<Box<dyn RCtx>, String> {
    let mut r = fx.receiver()?;
    match pos {
        Some(p) => {
            r.set_seq(p);
            if r.seq_state() != (p, false) {
                return Err(format!("hook: receiver state after set_seq({}) is {:?}", p, r.seq_state()));
            }
        }
        None => {
            r.set_seq(u64::MAX);
            let (pt, aad, ct) = fx.msg(u64::MAX);
            match r.open(&ct, &aad) {
                Obs::Ok(v) if v == pt => {}
                o => return Err(format!("receiver: the open at sequence 2^64-1 failed: {}", o.class())),
            }
            if r.seq_state() != (u64::MAX, true) {
                return Err(format!("receiver: state after opening at 2^64-1 is {:?}, want (2^64-1, true)", r.seq_state()));
            }
        }
    }
    Ok(r)
}

// ------------------------------------------------------------------------------------------------
// E2a: every edge of M(W) replayed on the implementation
// ------------------------------------------------------------------------------------------------

/// Embeddings of the W-bit model counter into the 64-bit counter: `base + pos`. The last one is
/// top-aligned (model exhaustion = real exhaustion); for the others states/edges that involve
/// exhaustion are skipped (the real counter is not exhausted there).
pub fn embeddings(w: u8, thorough: bool) -> Vec<u64> {
    let span = 1u64 << w;
    if w >= 5 {
        // the large model is replayed at the bottom, across the 2^32 carry and top-aligned only
        return vec![0, (1u64 << 32) - span / 2, 0u64.wrapping_sub(span)];
    }
    let half = span / 2;
    let mut v = vec![0u64];
    let ks: Vec<u32> = if thorough { vec![8, 16, 24, 32, 40, 48, 56, 63] } else { vec![8, 32, 56] };
    for k in ks {
        v.push((1u64 << k) - half); // straddles the carry into bit k
    }
    v.push(0u64.wrapping_sub(span)); // top aligned: pos -> 2^64 - 2^W + pos
    v
}

#[derive(Clone, Debug, Serialize, Deserialize)]
pub struct EdgeCase {
    pub suite: SuiteId,
    pub w: u8,
    pub base: u64,
    pub state: MState,
}

pub struct E2a {
    pub focus: Focus,
    pub suites: Vec<SuiteId>,
    pub ws: Vec<u8>,
}

fn top_aligned(w: u8, base: u64) -> bool {
    base == 0u64.wrapping_sub(1u64 << w)
}

impl Part for E2a {
    type Case = EdgeCase;
    fn name(&self) -> String {
        format!("E2a-model-edges-{:?}", self.focus)
    }
    fn rule(&self) -> String {
        "the abstract session model M(W) (W-bit counter) is checked by stateright for its own invariants over its complete reachable graph; then every reachable model state is concretised (deterministic setup, verif_set_seq, exhaustion reached by a real seal/open at 2^64-1) under several embeddings pos -> base+pos and EVERY outgoing edge is executed on the real contexts: result kind, output bytes, buffer-untouched and the post-state read through verif_seq_state are compared with M and with R1 on the concrete bytes; a case = one model state under one embedding and suite; transitions = edges executed".into()
    }
    fn bound(&self, cfg: &Cfg) -> String {
        format!("W in {:?}; embeddings {:?}; {} suites; focus {:?}", self.ws, self.ws.iter().map(|w| embeddings(*w, cfg.tier.thorough()).len()).collect::<Vec<_>>(), self.suites.len(), self.focus)
    }
    fn enumerate(&self, cfg: &Cfg) -> Vec<EdgeCase> {
        let mut v = vec![];
        for &w in &self.ws {
            let (_, states) = check_model(w, self.focus);
            for &suite in &self.suites {
                for base in embeddings(w, cfg.tier.thorough()) {
                    for st in &states {
                        if !top_aligned(w, base) && (st.s_dead || st.r_dead) {
                            continue;
                        }
                        v.push(EdgeCase { suite, w, base, state: st.clone() });
                    }
                }
            }
        }
        v
    }
    fn extra(&self, _cfg: &Cfg) -> (serde_json::Map<String, serde_json::Value>, Vec<String>) {
        let mut m = serde_json::Map::new();
        let mut errs = vec![];
        let mut all = vec![];
        for &w in &self.ws {
            let (st, _) = check_model(w, self.focus);
            if !st.violated.is_empty() {
                errs.push(format!("stateright: M({}) violates its own invariants {:?} - the model is wrong", w, st.violated));
            }
            if st.unique_states != st.bfs_states {
                errs.push(format!("M({}): stateright found {} states, own BFS {} - enumeration mismatch", w, st.unique_states, st.bfs_states));
            }
            if !(st.reach_sender_exhausted) || (self.focus != Focus::Sender && !st.reach_receiver_exhausted) {
                errs.push(format!("M({}): exhaustion not reachable - vacuous model", w));
            }
            all.push(serde_json::to_value(&st).unwrap());
        }
        m.insert("stateright_model_check".into(), serde_json::Value::Array(all));
        (m, errs)
    }
    fn run(&self, cfg: &Cfg, c: &EdgeCase) -> CaseOut {
        let mut out = CaseOut::new();
        out.states = 1;
        let m = M { w: c.w, focus: self.focus };
        let top = top_aligned(c.w, c.base);
        out.outcome = format!("{}/{}", c.suite.aead.name(), if top { "top" } else { "low" });
        let fx = match Fixture::new(c.suite, Mode::Base, cfg.seed) {
            Ok(f) => f,
            Err(e) => {
                out.fail(e);
                return out;
            }
        };
        let emb = |p: u16| c.base.wrapping_add(p as u64);
        let st = &c.state;
        let s_pos = if st.s_dead { None } else { Some(emb(st.s_pos)) };
        let r_pos = if st.r_dead { None } else { Some(emb(st.r_pos)) };
        for a in m.acts(st) {
            let (nx, exp) = m.step(st, &a);
            if !top && (nx.s_dead || nx.r_dead) {
                // in a low embedding the step 2^W-1 -> exhausted does not correspond to real exhaustion
                continue;
            }
            let what = format!("M({}) state (s={}{} r={}{}) base {:#x} action {:?}", c.w, st.s_pos, if st.s_dead { "†" } else { "" }, st.r_pos, if st.r_dead { "†" } else { "" }, c.base, a);
            match a {
                Act::Seal(api) => {
                    let mut s = match sender_at(&fx, s_pos) {
                        Ok(s) => s,
                        Err(e) => {
                            out.fail(format!("{}: {}", what, e));
                            continue;
                        }
                    };
                    run_seal(&mut out, &fx, s.as_mut(), s_pos, api, &what);
                    // model post-state = concrete post-state
                    let want = if nx.s_dead { (u64::MAX, true) } else { (emb(nx.s_pos), false) };
                    if s.seq_state() != want {
                        out.fail(format!("{}: concrete post-state {:?} does not correspond to the model's {:?}", what, s.seq_state(), want));
                    }
                    match (exp, st.s_dead) {
                        (Expect::SealLimit, true) | (Expect::SealOk(_), false) => {}
                        _ => out.fail(format!("{}: model expectation inconsistent", what)),
                    }
                    if st.s_dead {
                        // refuses forever: two more attempts through the other API
                        let other = if api == Api::Alloc { Api::InPlace } else { Api::Alloc };
                        run_seal(&mut out, &fx, s.as_mut(), None, other, &format!("{} (2nd refusal)", what));
                        run_seal(&mut out, &fx, s.as_mut(), None, api, &format!("{} (3rd refusal)", what));
                    }
                }
                Act::Deliver { j, c: corr, api } => {
                    let mut r = match receiver_at(&fx, r_pos) {
                        Ok(r) => r,
                        Err(e) => {
                            out.fail(format!("{}: {}", what, e));
                            continue;
                        }
                    };
                    let sealed = m.sealed(st);
                    let other_j = if sealed <= 1 { (j + 1) % (m.last() + 1) } else if j + 1 < sealed { j + 1 } else { j - 1 };
                    let d = deliver_bytes(&fx, emb(j), emb(other_j), corr, api);
                    run_delivery(&mut out, &fx, r.as_mut(), r_pos, &d, api, Some(exp), &what);
                    let want = if nx.r_dead { (u64::MAX, true) } else { (emb(nx.r_pos), false) };
                    if r.seq_state() != want {
                        out.fail(format!("{}: concrete post-state {:?} does not correspond to the model's {:?}", what, r.seq_state(), want));
                    }
                }
                Act::Export(role) => {
                    let ectx = [b"ctx-".as_slice(), &[st.s_pos as u8, st.r_pos as u8]].concat();
                    let l = 1 + ((st.s_pos as usize * 7 + st.r_pos as usize * 3) % 70);
                    match role {
                        Role::S => match sender_at(&fx, s_pos) {
                            Ok(s) => {
                                run_export(&mut out, &fx, s.export(&ectx, l), &ectx, l, &what);
                                run_export(&mut out, &fx, s.export(&ectx, l), &ectx, l, &format!("{} (repeat)", what));
                            }
                            Err(e) => out.fail(format!("{}: {}", what, e)),
                        },
                        Role::R => match receiver_at(&fx, r_pos) {
                            Ok(r) => {
                                run_export(&mut out, &fx, r.export(&ectx, l), &ectx, l, &what);
                                run_export(&mut out, &fx, r.export(&ectx, l), &ectx, l, &format!("{} (repeat)", what));
                            }
                            Err(e) => out.fail(format!("{}: {}", what, e)),
                        },
                    }
                }
            }
        }
        out
    }
}

// ------------------------------------------------------------------------------------------------
// E2b: unmerged history trees on live contexts
// ------------------------------------------------------------------------------------------------

/// A read-only slice of `len` zero bytes backed by an untouched anonymous mapping: no memory is committed, so
/// inputs beyond the AEAD's own length limits (AES-GCM: aad > 2^36 bytes) can be handed to the library. The
/// mapping is PROT_READ: code that tried to write there would fault (and be reported as a crash), and the
/// AEAD implementations reject on the length alone without reading.
pub struct Huge {
    ptr: *mut u8,
    len: usize,
}
extern "C" {
    fn mmap(addr: *mut core::ffi::c_void, len: usize, prot: i32, flags: i32, fd: i32, off: i64) -> *mut core::ffi::c_void;
    fn munmap(addr: *mut core::ffi::c_void, len: usize) -> i32;
}
impl Huge {
    pub fn new(len: usize) -> Option<Huge> {
        if !cfg!(all(target_os = "linux", target_pointer_width = "64")) {
            return None;
        }
        // PROT_READ = 1; MAP_PRIVATE | MAP_ANONYMOUS | MAP_NORESERVE = 0x2 | 0x20 | 0x4000
        let p = unsafe { mmap(core::ptr::null_mut(), len, 1, 0x4022, -1, 0) };
        if p as isize == -1 || p.is_null() {
            None
        } else {
            Some(Huge { ptr: p as *mut u8, len })
        }
    }
    pub fn as_slice(&self) -> &[u8] {
        unsafe { core::slice::from_raw_parts(self.ptr, self.len) }
    }
}
impl Drop for Huge {
    fn drop(&mut self) {
        unsafe {
            munmap(self.ptr as *mut core::ffi::c_void, self.len);
        }
    }
}
/// one byte more than AES-GCM's limit on the associated data (2^36 bytes)
pub const AAD_OVER_GCM_LIMIT: usize = (1usize << 36) + 1;

/// 16-letter alphabet of the history tree
pub const LETTERS: [&str; 16] = [
    "SealA", "SealI", "NextA", "NextI", "ReplayA", "FutureI", "TamperA", "ShortA", "WrongAadI", "GarbageI", "ExportS", "ExportR", "SealOverLimit", "OpenOverLimit", "SealBigA", "NextLongTagI",
];

#[derive(Clone, Debug, Serialize, Deserialize)]
pub struct TreeCase {
    pub suite: SuiteId,
    pub start: u64,
    pub prefix: Vec<u8>,
    /// all continuations of this many further letters are explored
    pub suffix_depth: u8,
}

pub struct E2b {
    pub suites: Vec<SuiteId>,
    pub starts: Vec<u64>,
    pub depth: u8,
    pub letters: Vec<u8>,
    pub label: String,
}

/// positions as the model sees them: None = exhausted
#[derive(Clone, Copy, Debug, PartialEq, Eq)]
struct Pos2 {
    s: Option<u64>,
    r: Option<u64>,
}

fn succ(p: u64) -> Option<u64> {
    p.checked_add(1)
}

impl E2b {
    fn run_path(&self, out: &mut CaseOut, fx: &Fixture, start: u64, path: &[u8]) {
        let (mut s, mut r) = match (sender_at(fx, Some(start)), receiver_at(fx, Some(start))) {
            (Ok(s), Ok(r)) => (s, r),
            (Err(e), _) | (_, Err(e)) => {
                out.fail(e);
                return;
            }
        };
        let mut pos = Pos2 { s: Some(start), r: Some(start) };
        for (i, &l) in path.iter().enumerate() {
            let what = format!("history {:?} from {:#x}, step {} ({})", path.iter().map(|x| LETTERS[*x as usize]).collect::<Vec<_>>(), start, i, LETTERS[l as usize]);
            let cur_r = pos.r.unwrap_or(u64::MAX);
            match l {
                0 | 1 => {
                    let api = if l == 0 { Api::Alloc } else { Api::InPlace };
                    run_seal(out, fx, s.as_mut(), pos.s, api, &what);
                    pos.s = pos.s.and_then(succ);
                }
                2..=9 => {
                    let (mpos, corr, api) = match l {
                        2 => (cur_r, Corr::None, Api::Alloc),
                        3 => (cur_r, Corr::None, Api::InPlace),
                        4 => (cur_r.wrapping_sub(1), Corr::None, Api::Alloc),
                        5 => (cur_r.wrapping_add(1), Corr::None, Api::InPlace),
                        6 => (cur_r, Corr::FlipCt, Api::Alloc),
                        7 => (cur_r, Corr::ShortTag, Api::Alloc),
                        8 => (cur_r, Corr::WrongAad, Api::InPlace),
                        _ => (cur_r, Corr::Zeros, Api::InPlace),
                    };
                    let d = deliver_bytes(fx, mpos, mpos.wrapping_add(1), corr, api);
                    let valid = pos.r.is_some() && mpos == cur_r && corr == Corr::None;
                    let exp = if pos.r.is_none() { Expect::OpenLimit } else if valid { Expect::OpenOk(0) } else { Expect::OpenErr };
                    run_delivery(out, fx, r.as_mut(), pos.r, &d, api, Some(exp), &what);
                    if valid {
                        pos.r = pos.r.and_then(succ);
                    }
                }
                10 => run_export(out, fx, s.export(b"tree", 33), b"tree", 33, &what),
                11 => run_export(out, fx, r.export(b"tree", 33), b"tree", 33, &what),
                14 => {
                    // a LARGE message through the allocating seal (a separate bulk path is a classic): it uses up exactly one
                    // sequence number like any other message
                    out.transitions += 1;
                    let big = vec![0x42u8; 4101];
                    let got = s.seal(&big, b"big");
                    match pos.s {
                        Some(p) => {
                            if got != Obs::Ok(fx.refctx.seal_at(p as u128, b"big", &big)) {
                                out.fail(format!("{}: allocating seal of 4101 bytes at sequence number {} differs from R1: {}", what, p, got.class()));
                            }
                        }
                        None => {
                            if got != Obs::Err(HpkeError::MessageLimitReached) {
                                out.fail(format!("{}: exhausted sender, 4101-byte message: {} want Err(MessageLimitReached)", what, got.class()));
                            }
                        }
                    }
                    pos.s = pos.s.and_then(succ);
                }
                15 => {
                    // the genuine next message through the in-place form, but with a byte appended to the TAG field: the tag
                    // does not deserialize (IncorrectInputLength), nothing is opened and nothing moves
                    let (_, aad, ct) = fx.msg(cur_r);
                    let nt = fx.nt();
                    let mut buf = ct[..ct.len() - nt].to_vec();
                    let long_tag = [&ct[ct.len() - nt..], &[0u8][..]].concat();
                    out.transitions += 1;
                    let got = r.open_ip(&mut buf, &aad, &long_tag);
                    if got != Obs::Pre(HpkeError::IncorrectInputLength(nt, nt + 1)) {
                        out.fail(format!("{}: in-place delivery whose tag field is {} bytes long: {} want IncorrectInputLength({}, {}) from AeadTag::from_bytes", what, nt + 1, got.class(), nt, nt + 1));
                    }
                }
                _ => {
                    // an input the AEAD itself refuses (AES-GCM: more than 2^36 bytes of aad): the seal fails with
                    // SealError / the open with OpenError, and NOTHING else changes - the next successful seal is
                    // still the i-th one. Only AES-GCM has a limit that can be reached without committing memory.
                    if !matches!(fx.suite.aead, crate::refmodel::Aead::Aes128Gcm | crate::refmodel::Aead::Aes256Gcm) {
                        continue;
                    }
                    let Some(h) = Huge::new(AAD_OVER_GCM_LIMIT) else {
                        out.notes.push("over-limit mapping unavailable: letter skipped".into());
                        continue;
                    };
                    out.transitions += 1;
                    if l == 12 {
                        let mut buf = b"over the limit".to_vec();
                        let got = if i % 2 == 0 { s.seal_ip(&mut buf, h.as_slice()).map(|_| ()) } else { s.seal(b"over the limit", h.as_slice()).map(|_| ()) };
                        let want = if pos.s.is_some() { HpkeError::SealError } else { HpkeError::MessageLimitReached };
                        if got != Obs::Err(want) {
                            out.fail(format!("{}: seal with {} bytes of aad (over the AEAD's limit): got {} want Err({:?})", what, AAD_OVER_GCM_LIMIT, got.class(), want));
                        }
                        if pos.s.is_none() && buf != b"over the limit" {
                            out.fail(format!("{}: buffer modified although MessageLimitReached was returned", what));
                        }
                    } else {
                        let (_, _, ct) = fx.msg(cur_r);
                        let nt = fx.nt();
                        let mut buf = ct[..ct.len() - nt].to_vec();
                        let got = if i % 2 == 0 { r.open_ip(&mut buf, h.as_slice(), &ct[ct.len() - nt..]) } else { r.open(&ct, h.as_slice()).map(|_| ()) };
                        let want = if pos.r.is_some() { HpkeError::OpenError } else { HpkeError::MessageLimitReached };
                        if got != Obs::Err(want) {
                            out.fail(format!("{}: open with {} bytes of aad (over the AEAD's limit): got {} want Err({:?})", what, AAD_OVER_GCM_LIMIT, got.class(), want));
                        }
                    }
                }
            }
            // the concrete counters follow the model after every step
            let want_s = match pos.s { Some(p) => (p, false), None => (u64::MAX, true) };
            let want_r = match pos.r { Some(p) => (p, false), None => (u64::MAX, true) };
            if s.seq_state() != want_s || r.seq_state() != want_r {
                out.fail(format!("{}: concrete state S{:?} R{:?} differs from the model's S{:?} R{:?}", what, s.seq_state(), r.seq_state(), want_s, want_r));
                return;
            }
        }
    }
}

impl Part for E2b {
    type Case = TreeCase;
    fn name(&self) -> String {
        format!("E2b-history-tree-{}", self.label)
    }
    fn rule(&self) -> String {
        "unmerged tree of ALL action sequences up to the depth bound over the letter alphabet {seal (2 APIs), deliver next (2 APIs), replay, future, tampered, short, wrong-aad, garbage, export S, export R, a 4101-byte allocating seal, the next message with an over-long tag field through the in-place form, seal / open with more associated data than the AEAD accepts (2^36+1 bytes from an uncommitted read-only mapping, AES-GCM suites; must fail with SealError / OpenError and change nothing)}, run on live sender+receiver contexts from each start position (the hook only sets the start); the abstract model runs in lock-step: every result, every output byte and the concrete (seq, overflowed) pair after every step are compared; a case = one prefix with all its continuations".into()
    }
    fn bound(&self, _cfg: &Cfg) -> String {
        format!("depth {} over {} letters from {} start positions x {} suites", self.depth, self.letters.len(), self.starts.len(), self.suites.len())
    }
    fn enumerate(&self, _cfg: &Cfg) -> Vec<TreeCase> {
        // split the tree at depth 2 (or less) into cases
        let split = self.depth.min(2);
        let mut prefixes: Vec<Vec<u8>> = vec![vec![]];
        for _ in 0..split {
            let mut nx = vec![];
            for p in &prefixes {
                for &l in &self.letters {
                    let mut q = p.clone();
                    q.push(l);
                    nx.push(q);
                }
            }
            prefixes = nx;
        }
        let mut v = vec![];
        for &suite in &self.suites {
            for &start in &self.starts {
                for p in &prefixes {
                    v.push(TreeCase { suite, start, prefix: p.clone(), suffix_depth: self.depth - split });
                }
            }
        }
        v
    }
    fn run(&self, cfg: &Cfg, c: &TreeCase) -> CaseOut {
        let mut out = CaseOut::new();
        out.outcome = format!("{}/{}", c.suite.aead.name(), if c.start > u64::MAX - 8 { "near-exhaustion" } else { "mid" });
        let fx = match Fixture::new(c.suite, Mode::Base, cfg.seed) {
            Ok(f) => f,
            Err(e) => {
                out.fail(e);
                return out;
            }
        };
        // enumerate all suffixes of every length 0..=suffix_depth (so shorter histories are covered too)
        let mut stack: Vec<Vec<u8>> = vec![c.prefix.clone()];
        while let Some(p) = stack.pop() {
            let ext = p.len() - c.prefix.len();
            if ext == c.suffix_depth as usize {
                self.run_path(&mut out, &fx, c.start, &p);
                out.states += 1;
                if out.mismatches.len() > 20 {
                    break;
                }
                continue;
            }
            for &l in &self.letters {
                let mut q = p.clone();
                q.push(l);
                stack.push(q);
            }
        }
        out
    }
}

// ------------------------------------------------------------------------------------------------
// C04 formula: the nonce observed through the ciphertext at boundary positions and over a long
// consecutive run through the public API only
// ------------------------------------------------------------------------------------------------

/// DESIGN §6 SEQ_STARTS
pub fn seq_starts() -> Vec<u64> {
    let mut v = vec![0u64, 1, 2];
    for j in 1..=63u32 {
        let p = 1u64 << j;
        v.extend_from_slice(&[p - 1, p, p + 1]);
    }
    for d in (0..4u64).rev() {
        v.push(u64::MAX - d);
    }
    v.sort();
    v.dedup();
    v
}

#[derive(Clone, Debug, Serialize, Deserialize)]
pub enum NonceCase {
    /// set the counter to `start` with the hook, seal 3 messages alternating the APIs
    At { suite: SuiteId, start: u64 },
    /// seal the SAME plaintext and aad at every start position: all ciphertexts must be pairwise distinct
    /// (a direct check of "no two messages share a nonce" that does not go through R1)
    Distinct { suite: SuiteId },
    /// seal `count` messages from 0 through the public API only; `from` > 0 means the run is one
    /// chunk of a longer run and the hook is used to jump to its start after validating the hook
    Run { suite: SuiteId, from: u64, count: u64 },
    /// every VALUE 0..=255 of one byte of the 64-bit counter (the other bytes small): a nonce computation that goes wrong
    /// for particular byte values (e.g. those that happen to equal a byte of the secret base nonce) shows here
    ByteValues { suite: SuiteId, byte: u8 },
    /// more than 4 GiB of plaintext through ONE sender / receiver pair (17 messages of 256 MiB, in place): sealing keeps
    /// working whatever the total volume - the only limit is the sequence number
    Bulk { suite: SuiteId },
}

pub struct NonceFormula {
    pub suites: Vec<SuiteId>,
    pub run_len: u64,
}

impl Part for NonceFormula {
    type Case = NonceCase;
    fn name(&self) -> String {
        "E1-nonce-formula".into()
    }
    fn rule(&self) -> String {
        "for every start position in SEQ_STARTS (every bit and byte carry of the 64-bit counter, the first and last values) the counter is set with the hook and 3 messages are sealed (alternating APIs): every ciphertext must equal R1.Seal(key, base_nonce XOR I2OSP(pos, Nn), aad, pt), which observes the nonce without looking at internals; plus a consecutive run from 0 through the PUBLIC API only, compared message by message, which also validates the hook (a context advanced by n real seals and one set by verif_set_seq(n) report the same state and produce the same next ciphertext)".into()
    }
    fn bound(&self, _cfg: &Cfg) -> String {
        format!("{} start positions x {} suites; every value 0..=255 of each of the 8 counter bytes; consecutive run of {} seals per suite", seq_starts().len(), self.suites.len(), self.run_len)
    }
    fn enumerate(&self, _cfg: &Cfg) -> Vec<NonceCase> {
        let mut v = vec![];
        for &suite in &self.suites {
            for start in seq_starts() {
                v.push(NonceCase::At { suite, start });
            }
            v.push(NonceCase::Distinct { suite });
            for byte in 0..8u8 {
                v.push(NonceCase::ByteValues { suite, byte });
            }
        }
        {
            let mut seen = std::collections::HashSet::new();
            for &suite in &self.suites {
                if seen.insert(suite.aead) {
                    v.push(NonceCase::Bulk { suite });
                }
            }
        }
        // the long run only for one (KEM,KDF) pair per AEAD: the sequence logic is generic in them
        let mut seen = std::collections::HashSet::new();
        for &suite in &self.suites {
            if seen.insert(suite.aead) {
                let chunk = 1u64 << 16;
                let mut from = 0;
                while from < self.run_len {
                    v.push(NonceCase::Run { suite, from, count: chunk.min(self.run_len - from) });
                    from += chunk;
                }
            }
        }
        v
    }
    fn run(&self, cfg: &Cfg, c: &NonceCase) -> CaseOut {
        let mut out = CaseOut::new();
        match c {
            NonceCase::At { suite, start } => {
                out.outcome = format!("at/{}", suite.aead.name());
                let fx = match Fixture::new(*suite, Mode::Base, cfg.seed) {
                    Ok(f) => f,
                    Err(e) => {
                        out.fail(e);
                        return out;
                    }
                };
                let mut s = match sender_at(&fx, Some(*start)) {
                    Ok(s) => s,
                    Err(e) => {
                        out.fail(e);
                        return out;
                    }
                };
                let mut pos = Some(*start);
                for i in 0..3 {
                    let api = if i % 2 == 0 { Api::Alloc } else { Api::InPlace };
                    run_seal(&mut out, &fx, s.as_mut(), pos, api, &format!("start {:#x} seal #{}", start, i));
                    pos = pos.and_then(succ);
                }
            }
            NonceCase::Bulk { suite } => {
                out.outcome = format!("bulk/{}", suite.aead.name());
                let fx = match Fixture::new(*suite, Mode::Base, cfg.seed) {
                    Ok(f) => f,
                    Err(e) => {
                        out.fail(e);
                        return out;
                    }
                };
                let (mut s, mut r) = match (fx.sender(), fx.receiver()) {
                    (Ok(s), Ok(r)) => (s, r),
                    (Err(e), _) | (_, Err(e)) => {
                        out.fail(e);
                        return out;
                    }
                };
                const CHUNK: usize = 256 << 20;
                let mut buf = vec![0u8; CHUNK];
                for i in 0..17u64 {
                    let fillb = 0x11u8.wrapping_mul(i as u8 + 1);
                    buf.iter_mut().for_each(|b| *b = fillb);
                    out.transitions += 2;
                    let tag = match s.seal_ip(&mut buf, b"bulk") {
                        Obs::Ok(t) => t,
                        o => {
                            out.fail(format!("message #{} of 256 MiB ({} GiB sealed so far by this context): {} - sealing must keep working until the sequence numbers run out", i, (i * CHUNK as u64) >> 30, o.class()));
                            return out;
                        }
                    };
                    if buf[0] == fillb && buf[1] == fillb && buf[CHUNK - 1] == fillb {
                        out.fail(format!("message #{}: the buffer does not look encrypted", i));
                    }
                    match r.open_ip(&mut buf, b"bulk", &tag) {
                        Obs::Ok(()) => {
                            if buf.iter().any(|b| *b != fillb) {
                                out.fail(format!("message #{} of 256 MiB does not decrypt to what was sealed", i));
                                return out;
                            }
                        }
                        o => {
                            out.fail(format!("message #{} of 256 MiB ({} GiB opened so far): {}", i, (i * CHUNK as u64) >> 30, o.class()));
                            return out;
                        }
                    }
                }
                // and it still seals small messages exactly as R1 says
                run_seal(&mut out, &fx, s.as_mut(), Some(17), Api::Alloc, "the 18th message, after 4.25 GiB");
                out.nontrivial = true;
            }
            NonceCase::ByteValues { suite, byte } => {
                out.outcome = format!("byte-values/{}", suite.aead.name());
                let fx = match Fixture::new(*suite, Mode::Base, cfg.seed) {
                    Ok(f) => f,
                    Err(e) => {
                        out.fail(e);
                        return out;
                    }
                };
                let mut s = match fx.sender() {
                    Ok(s) => s,
                    Err(e) => {
                        out.fail(e);
                        return out;
                    }
                };
                let mut seen: std::collections::HashMap<Vec<u8>, u64> = Default::default();
                for low in [5u64, 0] {
                    for v in 0..=255u64 {
                        let p = (v << (8 * *byte as u32)) | if *byte == 0 { 0 } else { low };
                        s.set_seq(p);
                        out.transitions += 1;
                        let want = fx.refctx.seal_at(p as u128, b"same aad", b"same plaintext at every position");
                        match s.seal(b"same plaintext at every position", b"same aad") {
                            Obs::Ok(ct) => {
                                if ct != want {
                                    out.fail(format!("seal at sequence number {:#x} (byte {} of the counter = {:#04x}) is not under base_nonce XOR I2OSP({:#x})", p, byte, v, p));
                                    return out;
                                }
                                if let Some(q) = seen.insert(ct, p) {
                                    if q != p {
                                        out.fail(format!("nonce reuse: sequence numbers {:#x} and {:#x} give identical ciphertexts for identical inputs", q, p));
                                        return out;
                                    }
                                }
                            }
                            o => {
                                out.fail(format!("seal at {:#x}: {}", p, o.class()));
                                return out;
                            }
                        }
                    }
                }
                out.nontrivial = true;
            }
            NonceCase::Distinct { suite } => {
                out.outcome = format!("distinct/{}", suite.aead.name());
                let fx = match Fixture::new(*suite, Mode::Base, cfg.seed) {
                    Ok(f) => f,
                    Err(e) => {
                        out.fail(e);
                        return out;
                    }
                };
                let mut s = match fx.sender() {
                    Ok(s) => s,
                    Err(e) => {
                        out.fail(e);
                        return out;
                    }
                };
                let mut seen: std::collections::HashMap<Vec<u8>, u64> = Default::default();
                // every start position and its two successors, in ascending order
                let mut positions: Vec<u64> = seq_starts().into_iter().flat_map(|p| [p, p.wrapping_add(1), p.wrapping_add(2)]).filter(|p| *p >= 3 || true).collect();
                positions.sort();
                positions.dedup();
                for p in positions {
                    s.set_seq(p);
                    out.transitions += 1;
                    match s.seal(b"same plaintext every time, 32 by", b"same aad") {
                        Obs::Ok(ct) => {
                            if let Some(q) = seen.insert(ct, p) {
                                out.fail(format!("nonce reuse: the messages at sequence numbers {:#x} and {:#x} are sealed under the same nonce (identical ciphertexts for identical inputs)", q, p));
                                break;
                            }
                        }
                        o => {
                            out.fail(format!("seal at {:#x}: {}", p, o.class()));
                            break;
                        }
                    }
                }
                out.nontrivial = true;
            }
            NonceCase::Run { suite, from, count } => {
                out.outcome = format!("run/{}", suite.aead.name());
                let fx = match Fixture::new(*suite, Mode::Base, cfg.seed) {
                    Ok(f) => f,
                    Err(e) => {
                        out.fail(e);
                        return out;
                    }
                };
                let mut s = match fx.sender() {
                    Ok(s) => s,
                    Err(e) => {
                        out.fail(e);
                        return out;
                    }
                };
                if *from > 0 {
                    s.set_seq(*from);
                }
                let pt = b"run";
                for p in *from..*from + *count {
                    let aad = (p as u32).to_le_bytes();
                    let want = fx.refctx.seal_at(p as u128, &aad, pt);
                    out.transitions += 1;
                    let got = if p % 2 == 0 {
                        s.seal(pt, &aad)
                    } else {
                        let mut b = pt.to_vec();
                        s.seal_ip(&mut b, &aad).map(|t| { let mut v = b.clone(); v.extend_from_slice(&t); v })
                    };
                    match got {
                        Obs::Ok(v) if v == want => {}
                        o => {
                            out.fail(format!("consecutive run: message {} is not sealed under base_nonce XOR I2OSP({}): {}", p, p, o.class()));
                            break;
                        }
                    }
                }
                out.nontrivial = true;
                // hook faithfulness at the end of the chunk
                let end = *from + *count;
                let real = s.seq_state();
                out.check(&format!("state after {} real seals is ({}, false)", end, end), real == (end, false));
                if let Ok(mut t) = fx.sender() {
                    t.set_seq(end);
                    out.check("verif_set_seq(n) state equals the state after n real seals", t.seq_state() == real);
                    let a = s.seal(b"probe", b"x");
                    let b = t.seal(b"probe", b"x");
                    out.check("next ciphertext after n real seals equals next ciphertext after verif_set_seq(n)", a == b && a.is_ok());
                }
            }
        }
        out
    }
}

/// suites used for the sequence logic: one (KEM,KDF) pair per sealing AEAD in quick, all 12 in thorough
pub fn seq_suites(thorough: bool) -> Vec<SuiteId> {
    let mut v = vec![];
    for aead in [Aead::Aes128Gcm, Aead::Aes256Gcm, Aead::ChaCha20Poly1305] {
        if thorough {
            for kem in [Kem::X25519, Kem::P256] {
                for kdf in [Kdf::Sha256, Kdf::Sha384, Kdf::Sha512] {
                    v.push(SuiteId { kem, kdf, aead });
                }
            }
        } else {
            v.push(SuiteId { kem: Kem::X25519, kdf: Kdf::Sha256, aead });
        }
    }
    v
}

// ------------------------------------------------------------------------------------------------
// E2a-tlc: the labelled state graph computed by TLC from model/Session.tla, every edge replayed
// ------------------------------------------------------------------------------------------------

#[derive(Clone, Debug, Serialize, Deserialize, PartialEq, Eq)]
pub struct TlcPos {
    pub s_pos: u16,
    pub s_dead: bool,
    pub r_pos: u16,
    pub r_dead: bool,
}

#[derive(Clone, Debug, Serialize, Deserialize)]
pub struct TlcEdge {
    pub from: TlcPos,
    pub kind: String,
    pub j: u16,
    pub corr: String,
    pub api: String,
    pub res: String,
    pub to: TlcPos,
}

#[derive(Clone, Debug, Serialize, Deserialize)]
pub struct TlcCase {
    pub suite: SuiteId,
    pub w: u8,
    pub base: u64,
    pub edge: TlcEdge,
}

pub struct E2aTlc {
    pub edges: Vec<TlcEdge>,
    pub w: u8,
    pub suites: Vec<SuiteId>,
    pub tlc_stats: serde_json::Value,
}

pub fn load_tlc_edges(path: &std::path::Path) -> Result<Vec<TlcEdge>, String> {
    let s = std::fs::read_to_string(path).map_err(|e| format!("cannot read {}: {}", path.display(), e))?;
    s.lines().filter(|l| !l.trim().is_empty()).map(|l| serde_json::from_str(l).map_err(|e| format!("bad edge line: {}", e))).collect()
}

fn corr_of(s: &str) -> Option<Corr> {
    CORRS.iter().copied().find(|c| format!("{:?}", c) == s)
}

impl Part for E2aTlc {
    type Case = TlcCase;
    fn name(&self) -> String {
        "E2a-tlc-graph-edges".into()
    }
    fn rule(&self) -> String {
        "model/Session.tla (an independent TLA+ statement of M(W)) is checked by TLC (invariants TypeOK, I1, I2, I3, I3b and the transition property I1t) over its complete reachable graph, which TLC dumps with action labels; EVERY distinct (position state, action) pair of that graph is replayed on the real contexts under each embedding: TLC's specified result and successor state, the Rust model's step function and the implementation (result kind, bytes via R1, concrete (seq, overflowed)) must all agree; the set of position states must equal the one stateright finds".into()
    }
    fn bound(&self, cfg: &Cfg) -> String {
        format!("W = {}; {} graph edges x {} embeddings x {} suites", self.w, self.edges.len(), embeddings(self.w, cfg.tier.thorough()).len(), self.suites.len())
    }
    fn enumerate(&self, cfg: &Cfg) -> Vec<TlcCase> {
        let mut v = vec![];
        for &suite in &self.suites {
            for base in embeddings(self.w, cfg.tier.thorough()) {
                for e in &self.edges {
                    let involves_dead = e.from.s_dead || e.from.r_dead || e.to.s_dead || e.to.r_dead;
                    if !top_aligned(self.w, base) && involves_dead {
                        continue;
                    }
                    v.push(TlcCase { suite, w: self.w, base, edge: e.clone() });
                }
            }
        }
        v
    }
    fn extra(&self, _cfg: &Cfg) -> (serde_json::Map<String, serde_json::Value>, Vec<String>) {
        let mut m = serde_json::Map::new();
        let mut errs = vec![];
        m.insert("tlc".into(), self.tlc_stats.clone());
        // the position states TLC reached = the position states stateright / the Rust BFS reach
        let (_, states) = check_model(self.w, Focus::Receiver);
        let mut mine: std::collections::BTreeSet<(u16, bool, u16, bool)> = Default::default();
        for s in &states {
            mine.insert((s.s_pos, s.s_dead, s.r_pos, s.r_dead));
        }
        let mut theirs: std::collections::BTreeSet<(u16, bool, u16, bool)> = Default::default();
        for e in &self.edges {
            theirs.insert((e.from.s_pos, e.from.s_dead, e.from.r_pos, e.from.r_dead));
            theirs.insert((e.to.s_pos, e.to.s_dead, e.to.r_pos, e.to.r_dead));
        }
        m.insert("position_states_tlc".into(), serde_json::json!(theirs.len()));
        m.insert("position_states_stateright".into(), serde_json::json!(mine.len()));
        if mine != theirs {
            errs.push(format!("TLC and stateright disagree on the reachable position states of M({}): {} vs {}", self.w, theirs.len(), mine.len()));
        }
        (m, errs)
    }
    fn run(&self, cfg: &Cfg, c: &TlcCase) -> CaseOut {
        let mut out = CaseOut::new();
        out.states = 1;
        let e = &c.edge;
        out.outcome = format!("{}/{}", e.kind, e.res);
        let fx = match Fixture::new(c.suite, Mode::Base, cfg.seed) {
            Ok(f) => f,
            Err(x) => {
                out.fail(x);
                return out;
            }
        };
        let m = M { w: c.w, focus: Focus::Receiver };
        let emb = |p: u16| c.base.wrapping_add(p as u64);
        let api = if e.api == "Alloc" { Api::Alloc } else { Api::InPlace };
        let st = MState { s_pos: e.from.s_pos, s_dead: e.from.s_dead, r_pos: e.from.r_pos, r_dead: e.from.r_dead, ..m.init() };
        let what = format!("TLC edge {:?} --{}({}, {}, {})--> {:?} [{}] base {:#x}", e.from, e.kind, e.j, e.corr, e.api, e.to, e.res, c.base);
        let act = match e.kind.as_str() {
            "Seal" => Act::Seal(api),
            "Deliver" => match corr_of(&e.corr) {
                Some(corr) => Act::Deliver { j: e.j, c: corr, api },
                None => {
                    out.fail(format!("{}: unknown corruption class", what));
                    return out;
                }
            },
            _ => {
                out.fail(format!("{}: unknown action", what));
                return out;
            }
        };
        // 1. TLC vs the Rust model
        let (nx, exp) = m.step(&st, &act);
        let exp_name = match exp {
            Expect::SealOk(_) => "SealOk",
            Expect::SealLimit => "SealLimit",
            Expect::OpenOk(_) => "OpenOk",
            Expect::OpenErr => "OpenErr",
            Expect::OpenLimit => "OpenLimit",
            Expect::Export => "Export",
        };
        out.transitions += 1;
        if exp_name != e.res || (nx.s_pos, nx.s_dead, nx.r_pos, nx.r_dead) != (e.to.s_pos, e.to.s_dead, e.to.r_pos, e.to.r_dead) {
            out.fail_machinery(format!("{}: the TLA+ model and the Rust model disagree (Rust: {} -> s={} {} r={} {})", what, exp_name, nx.s_pos, nx.s_dead, nx.r_pos, nx.r_dead));
            return out;
        }
        // 2. TLC vs the implementation
        match act {
            Act::Seal(api) => {
                let s_pos = if st.s_dead { None } else { Some(emb(st.s_pos)) };
                match sender_at(&fx, s_pos) {
                    Ok(mut s) => {
                        run_seal(&mut out, &fx, s.as_mut(), s_pos, api, &what);
                        let want = if e.to.s_dead { (u64::MAX, true) } else { (emb(e.to.s_pos), false) };
                        if s.seq_state() != want {
                            out.fail(format!("{}: concrete post-state {:?} does not correspond to TLC's successor {:?}", what, s.seq_state(), want));
                        }
                    }
                    Err(x) => out.fail(format!("{}: {}", what, x)),
                }
            }
            Act::Deliver { j, c: corr, api } => {
                let r_pos = if st.r_dead { None } else { Some(emb(st.r_pos)) };
                match receiver_at(&fx, r_pos) {
                    Ok(mut r) => {
                        let sealed = m.sealed(&st);
                        let other_j = if sealed <= 1 { (j + 1) % (m.last() + 1) } else if j + 1 < sealed { j + 1 } else { j - 1 };
                        let d = deliver_bytes(&fx, emb(j), emb(other_j), corr, api);
                        run_delivery(&mut out, &fx, r.as_mut(), r_pos, &d, api, Some(exp), &what);
                        let want = if e.to.r_dead { (u64::MAX, true) } else { (emb(e.to.r_pos), false) };
                        if r.seq_state() != want {
                            out.fail(format!("{}: concrete post-state {:?} does not correspond to TLC's successor {:?}", what, r.seq_state(), want));
                        }
                    }
                    Err(x) => out.fail(format!("{}: {}", what, x)),
                }
            }
            _ => {}
        }
        out
    }
}

// ------------------------------------------------------------------------------------------------
// Long runs on ONE context: counters hidden in a context (failures seen, messages seen) only show after
// many operations - far beyond the depth of the history trees
// ------------------------------------------------------------------------------------------------

#[derive(Clone, Debug, Serialize, Deserialize)]
pub enum LongCase {
    /// `n` rejected deliveries of mixed kinds on one receiver, then the genuine next message
    Failures { suite: SuiteId, start: u64, n: u64 },
    /// `n` accepted messages in a row on one receiver (and sealed by one sender), alternating the APIs
    Successes { suite: SuiteId, start: u64, n: u64 },
}

pub struct LongRuns {
    pub suites: Vec<SuiteId>,
    pub n_fail: u64,
    pub n_ok: u64,
}

impl Part for LongRuns {
    type Case = LongCase;
    fn name(&self) -> String {
        "E2c-long-runs".into()
    }
    fn rule(&self) -> String {
        "one live receiver context is handed n rejected deliveries (tampered, short, wrong aad, garbage, future, replay - both APIs) and must then still accept exactly the next genuine message with its counter unmoved; one live sender/receiver pair exchanges n messages in a row, every ciphertext compared with R1 and the counters read back at the end; n is chosen so that every delivery kind that reaches tag verification alone is seen more than 2^16 times in total (a few kinds are rejected on length before that), so an 8- or 16-bit bookkeeping counter would wrap (overflow checks are on in the primary build)".into()
    }
    fn bound(&self, _cfg: &Cfg) -> String {
        format!("{} rejected deliveries / {} accepted messages per context, {} suites, 2 start positions", self.n_fail, self.n_ok, self.suites.len())
    }
    fn rerun_check(&self) -> bool {
        false
    }
    fn enumerate(&self, _cfg: &Cfg) -> Vec<LongCase> {
        let mut v = vec![];
        for &suite in &self.suites {
            for start in [0u64, (1u64 << 32) - 70_000] {
                v.push(LongCase::Failures { suite, start, n: self.n_fail });
                v.push(LongCase::Successes { suite, start, n: self.n_ok });
            }
        }
        v
    }
    fn run(&self, cfg: &Cfg, c: &LongCase) -> CaseOut {
        let mut out = CaseOut::new();
        out.nontrivial = true;
        let suite = match c {
            LongCase::Failures { suite, .. } | LongCase::Successes { suite, .. } => *suite,
        };
        let fx = match Fixture::new(suite, Mode::Base, cfg.seed) {
            Ok(f) => f,
            Err(e) => {
                out.fail_machinery(e);
                return out;
            }
        };
        match c {
            LongCase::Failures { start, n, .. } => {
                out.outcome = format!("failures/{}", suite.aead.name());
                let mut r = match receiver_at(&fx, Some(*start)) {
                    Ok(r) => r,
                    Err(e) => {
                        out.fail(e);
                        return out;
                    }
                };
                let corrs = [Corr::FlipCt, Corr::ShortTag, Corr::WrongAad, Corr::Zeros, Corr::FlipTag, Corr::Empty, Corr::Append];
                // the deliveries are built once per kind; the receiver sees them over and over
                let ds: Vec<(Delivery, Api)> = corrs
                    .iter()
                    .flat_map(|&k| [Api::Alloc, Api::InPlace].into_iter().map(move |a| (k, a)))
                    .map(|(k, a)| (deliver_bytes(&fx, *start, start.wrapping_add(1), k, a), a))
                    .chain([(deliver_bytes(&fx, start.wrapping_add(1), *start, Corr::None, Api::Alloc), Api::Alloc)])
                    .collect();
                for i in 0..*n {
                    let (d, api) = &ds[(i % ds.len() as u64) as usize];
                    let got = match api {
                        Api::Alloc => r.open(&d.wire, &d.aad).map(|_| ()),
                        Api::InPlace => {
                            let mut b = d.body.clone();
                            r.open_ip(&mut b, &d.aad, &d.tag)
                        }
                    };
                    out.transitions += 1;
                    if got != Obs::Err(HpkeError::OpenError) {
                        out.fail(format!("rejected delivery #{} on one receiver context: got {} want Err(OpenError)", i, got.class()));
                        return out;
                    }
                }
                if r.seq_state() != (*start, false) {
                    out.fail(format!("after {} rejected deliveries the receiver's sequence state is {:?}, want ({}, false)", n, r.seq_state(), start));
                }
                let d = deliver_bytes(&fx, *start, start.wrapping_add(1), Corr::None, Api::Alloc);
                run_delivery(&mut out, &fx, r.as_mut(), Some(*start), &d, Api::Alloc, Some(Expect::OpenOk(0)), &format!("the genuine message after {} rejected deliveries", n));
            }
            LongCase::Successes { start, n, .. } => {
                out.outcome = format!("successes/{}", suite.aead.name());
                let (mut s, mut r) = match (sender_at(&fx, Some(*start)), receiver_at(&fx, Some(*start))) {
                    (Ok(s), Ok(r)) => (s, r),
                    (Err(e), _) | (_, Err(e)) => {
                        out.fail(e);
                        return out;
                    }
                };
                for i in 0..*n {
                    let p = start + i;
                    let aad = (p as u32).to_le_bytes();
                    let pt = [b'm', (i % 251) as u8];
                    let want = fx.refctx.seal_at(p as u128, &aad, &pt);
                    out.transitions += 2;
                    let ct = if i % 2 == 0 {
                        s.seal(&pt, &aad)
                    } else {
                        let mut b = pt.to_vec();
                        s.seal_ip(&mut b, &aad).map(|t| [&b[..], &t[..]].concat())
                    };
                    if ct != Obs::Ok(want.clone()) {
                        out.fail(format!("message #{} of a long run (sequence number {}): ciphertext differs from R1: {}", i, p, ct.class()));
                        return out;
                    }
                    let got = if i % 3 == 0 {
                        let mut b = want[..want.len() - fx.nt()].to_vec();
                        r.open_ip(&mut b, &aad, &want[want.len() - fx.nt()..]).map(|_| b.clone())
                    } else {
                        r.open(&want, &aad)
                    };
                    if got != Obs::Ok(pt.to_vec()) {
                        out.fail(format!("message #{} of a long run (sequence number {}) does not open: {}", i, p, got.class()));
                        return out;
                    }
                }
                if s.seq_state() != (start + n, false) || r.seq_state() != (start + n, false) {
                    out.fail(format!("after {} messages the sequence states are S{:?} R{:?}, want ({}, false)", n, s.seq_state(), r.seq_state(), start + n));
                }
            }
        }
        out
    }
}
