//! hpke-mc library: shared by the `hpke-mc` binary (properties C01-C16) and the `sched` binary (C18)
pub mod engine;
pub mod obs;
pub mod props;
pub mod refmodel;
pub mod rng;
pub mod session;
pub mod suites;
