//! Observations: every call into the library under test is wrapped so that a panic becomes a
//! value that the oracle compares like any other result.

use hpke::HpkeError;
use std::cell::RefCell;
use std::panic::{catch_unwind, AssertUnwindSafe};

thread_local! {
    static LAST_PANIC: RefCell<Option<String>> = const { RefCell::new(None) };
    static QUIET: RefCell<bool> = const { RefCell::new(false) };
}

/// Installs a panic hook that is silent (and records the message) while a guarded library call is
/// running on this thread, and prints as usual otherwise.
pub fn install_panic_hook() {
    let default = std::panic::take_hook();
    std::panic::set_hook(Box::new(move |info| {
        let quiet = QUIET.with(|q| *q.borrow());
        if quiet {
            let msg = if let Some(s) = info.payload().downcast_ref::<&str>() {
                s.to_string()
            } else if let Some(s) = info.payload().downcast_ref::<String>() {
                s.clone()
            } else {
                "<non-string panic>".to_string()
            };
            let loc = info
                .location()
                .map(|l| format!(" @{}:{}", l.file(), l.line()))
                .unwrap_or_default();
            LAST_PANIC.with(|p| *p.borrow_mut() = Some(format!("{}{}", msg, loc)));
        } else {
            default(info);
        }
    }));
}

/// Result of one guarded library call
#[derive(Clone, Debug, PartialEq, Eq)]
pub enum Obs<T> {
    Ok(T),
    /// the library returned this error
    Err(HpkeError),
    /// the adapter could not even build the typed arguments (key/tag deserialization or PSK bundle
    /// construction failed with this error) - the call itself was not made
    Pre(HpkeError),
    /// the library panicked
    Panic(String),
}

impl<T> Obs<T> {
    pub fn is_ok(&self) -> bool {
        matches!(self, Obs::Ok(_))
    }
    pub fn is_panic(&self) -> bool {
        matches!(self, Obs::Panic(_))
    }
    pub fn ok(self) -> Option<T> {
        match self {
            Obs::Ok(v) => Some(v),
            _ => None,
        }
    }
    pub fn as_ref(&self) -> Obs<&T> {
        match self {
            Obs::Ok(v) => Obs::Ok(v),
            Obs::Err(e) => Obs::Err(*e),
            Obs::Pre(e) => Obs::Pre(*e),
            Obs::Panic(s) => Obs::Panic(s.clone()),
        }
    }
    pub fn map<U>(self, f: impl FnOnce(T) -> U) -> Obs<U> {
        match self {
            Obs::Ok(v) => Obs::Ok(f(v)),
            Obs::Err(e) => Obs::Err(e),
            Obs::Pre(e) => Obs::Pre(e),
            Obs::Panic(s) => Obs::Panic(s),
        }
    }
    /// short class name used for outcome statistics
    pub fn class(&self) -> String {
        match self {
            Obs::Ok(_) => "Ok".into(),
            Obs::Err(e) => format!("Err({})", err_name(e)),
            Obs::Pre(e) => format!("Pre({})", err_name(e)),
            Obs::Panic(_) => "Panic".into(),
        }
    }
    /// Unwraps a value the *harness* needs in order to go on (e.g. a baseline setup). If it is not
    /// there the case cannot be evaluated; the caller reports that as a mismatch.
    pub fn need(self, what: &str) -> Result<T, String> {
        match self {
            Obs::Ok(v) => Ok(v),
            Obs::Err(e) => Err(format!("{}: unexpected Err({:?})", what, e)),
            Obs::Pre(e) => Err(format!("{}: unexpected Pre({:?})", what, e)),
            Obs::Panic(s) => Err(format!("{}: unexpected panic: {}", what, s)),
        }
    }
}

pub fn err_name(e: &HpkeError) -> String {
    match e {
        HpkeError::IncorrectInputLength(a, b) => format!("IncorrectInputLength({},{})", a, b),
        other => format!("{:?}", other),
    }
}

/// Runs a library call, turning a panic into `Obs::Panic`
pub fn guard<T>(f: impl FnOnce() -> Result<T, HpkeError>) -> Obs<T> {
    QUIET.with(|q| *q.borrow_mut() = true);
    LAST_PANIC.with(|p| *p.borrow_mut() = None);
    let r = catch_unwind(AssertUnwindSafe(f));
    QUIET.with(|q| *q.borrow_mut() = false);
    match r {
        Ok(Ok(v)) => Obs::Ok(v),
        Ok(Err(e)) => Obs::Err(e),
        Err(_) => Obs::Panic(
            LAST_PANIC
                .with(|p| p.borrow_mut().take())
                .unwrap_or_else(|| "<panic>".into()),
        ),
    }
}

/// Runs an infallible library call
pub fn guard_val<T>(f: impl FnOnce() -> T) -> Obs<T> {
    guard(|| Ok(f()))
}

pub fn hex(b: &[u8]) -> String {
    let mut s = String::with_capacity(b.len() * 2);
    for x in b {
        s.push_str(&format!("{:02x}", x));
    }
    s
}

pub fn unhex(s: &str) -> Vec<u8> {
    let s: String = s.chars().filter(|c| !c.is_whitespace()).collect();
    assert!(s.len() % 2 == 0, "odd hex length");
    (0..s.len())
        .step_by(2)
        .map(|i| u8::from_str_radix(&s[i..i + 2], 16).expect("bad hex"))
        .collect()
}

/// shortened hex for messages
pub fn hx(b: &[u8]) -> String {
    if b.len() <= 48 {
        hex(b)
    } else {
        format!("{}..({} bytes)..{}", hex(&b[..16]), b.len(), hex(&b[b.len() - 8..]))
    }
}
