//! The only source of nondeterminism of the library is the caller's RNG. This one serves bytes from
//! a script and logs every draw.

use rand_core::{CryptoRng, RngCore};

#[derive(Clone, Debug)]
pub struct ScriptRng {
    script: Vec<u8>,
    pos: usize,
    /// (kind, number of bytes) of every draw: kind 0 = fill_bytes, 4 = next_u32, 8 = next_u64
    pub log: Vec<(u8, usize)>,
}

impl ScriptRng {
    pub fn new(script: &[u8]) -> Self {
        ScriptRng { script: script.to_vec(), pos: 0, log: vec![] }
    }
    pub fn drawn(&self) -> usize {
        self.pos
    }
    /// all bytes handed out so far (script bytes, then the deterministic continuation)
    pub fn drawn_bytes(&self) -> Vec<u8> {
        (0..self.pos).map(|i| self.byte_at(i)).collect()
    }
    fn byte_at(&self, i: usize) -> u8 {
        if i < self.script.len() {
            self.script[i]
        } else {
            // deterministic continuation so that an over-draw is visible but harmless
            let j = (i - self.script.len()) as u64;
            (splitmix(0x5eed ^ j) & 0xff) as u8
        }
    }
    fn take(&mut self, dst: &mut [u8]) {
        for d in dst.iter_mut() {
            *d = self.byte_at(self.pos);
            self.pos += 1;
        }
    }
}

impl RngCore for ScriptRng {
    fn next_u32(&mut self) -> u32 {
        let mut b = [0u8; 4];
        self.take(&mut b);
        self.log.push((4, 4));
        u32::from_le_bytes(b)
    }
    fn next_u64(&mut self) -> u64 {
        let mut b = [0u8; 8];
        self.take(&mut b);
        self.log.push((8, 8));
        u64::from_le_bytes(b)
    }
    fn fill_bytes(&mut self, dst: &mut [u8]) {
        self.take(dst);
        self.log.push((0, dst.len()));
    }
}
impl CryptoRng for ScriptRng {}

pub fn splitmix(mut x: u64) -> u64 {
    x = x.wrapping_add(0x9E3779B97F4A7C15);
    let mut z = x;
    z = (z ^ (z >> 30)).wrapping_mul(0xBF58476D1CE4E5B9);
    z = (z ^ (z >> 27)).wrapping_mul(0x94D049BB133111EB);
    z ^ (z >> 31)
}

/// Fill patterns for byte strings (DESIGN §6 FILL)
#[derive(Clone, Copy, Debug, PartialEq, Eq, serde::Serialize, serde::Deserialize)]
pub enum Fill {
    Zero,
    Ones,
    Ramp,
    Ramp251,
    Mix,
}

pub const FILLS_QUICK: [Fill; 2] = [Fill::Ramp251, Fill::Mix];
pub const FILLS_ALL: [Fill; 5] = [Fill::Zero, Fill::Ones, Fill::Ramp, Fill::Ramp251, Fill::Mix];

/// `len` bytes of pattern `fill`; `tag` distinguishes the different strings of one case and `seed`
/// is VERIF_SEED (it only ever changes byte *values*, never the structure that is enumerated)
pub fn bytes(fill: Fill, len: usize, tag: u64, seed: u64) -> Vec<u8> {
    match fill {
        Fill::Zero => vec![0u8; len],
        Fill::Ones => vec![0xffu8; len],
        Fill::Ramp => (0..len).map(|i| (i as u64 + tag) as u8).collect(),
        Fill::Ramp251 => (0..len)
            .map(|i| ((i as u64).wrapping_mul(251).wrapping_add(seed).wrapping_add(tag.wrapping_mul(17))) as u8)
            .collect(),
        Fill::Mix => {
            let mut out = Vec::with_capacity(len);
            let mut ctr = 0u64;
            while out.len() < len {
                let v = splitmix(seed ^ tag.wrapping_mul(0x1000193) ^ (ctr << 32));
                for b in v.to_le_bytes() {
                    if out.len() < len {
                        out.push(b);
                    }
                }
                ctr += 1;
            }
            out
        }
    }
}

/// convenience: the Mix pattern
pub fn mix(len: usize, tag: u64, seed: u64) -> Vec<u8> {
    bytes(Fill::Mix, len, tag, seed)
}
