//! Suite registry: the type-level ciphersuite of the crate under test is erased once, here, into
//! object-safe traits that speak bytes. All exploration logic works on `&dyn SuiteOps`.
//! Only the crate's public API (and the cfg(hpke_verif) hooks) is used.

use crate::obs::{guard, guard_val, Obs};
use crate::refmodel::{Aead as RAead, Kdf as RKdf, Kem as RKem, Mode, SuiteId, AEADS, KDFS, KEMS};
use crate::rng::ScriptRng;
use hpke::{
    aead::{Aead as AeadT, AeadCtxR, AeadCtxS, AeadTag, AesGcm128, AesGcm256, ChaCha20Poly1305, ExportOnlyAead},
    kdf::{HkdfSha256, HkdfSha384, HkdfSha512, Kdf as KdfT},
    kem::{DhP256HkdfSha256, DhP384HkdfSha384, DhP521HkdfSha512, Kem as KemT, X25519HkdfSha256},
    Deserializable, HpkeError, OpModeR, OpModeS, PskBundle, Serializable,
};
use std::marker::PhantomData;

/// true when the crate under test was built with `--cfg hpke_verif` (the sequence-number hooks exist); the
/// `@user` variant of a check is built WITHOUT the guard and skips the steps that need the hooks
pub const HOOKS: bool = cfg!(hpke_verif);

/// Mode parameters in bytes. `sk_s`/`pk_s` are used in the Auth modes (sender uses both, receiver
/// only `pk_s`); `psk`/`psk_id` in the PSK modes.
#[derive(Clone, Debug, Default, PartialEq, Eq, serde::Serialize, serde::Deserialize)]
pub struct ModeSpec {
    pub kind: u8,
    pub psk: Vec<u8>,
    pub psk_id: Vec<u8>,
    pub sk_s: Vec<u8>,
    pub pk_s: Vec<u8>,
}

impl ModeSpec {
    pub fn mode(&self) -> Mode {
        match self.kind {
            0 => Mode::Base,
            1 => Mode::Psk,
            2 => Mode::Auth,
            _ => Mode::AuthPsk,
        }
    }
    pub fn base() -> Self {
        ModeSpec::default()
    }
}

#[derive(Clone, Copy, Debug, PartialEq, Eq, serde::Serialize, serde::Deserialize)]
pub enum KeyKind {
    Public,
    Private,
    Encapped,
}

// ------------------------------------------------------------------------------------------------
// KEM-level operations (4 instances)
// ------------------------------------------------------------------------------------------------

pub trait KemOps: Sync {
    fn id(&self) -> RKem;
    fn kem_id_const(&self) -> u16;
    fn size(&self, kind: KeyKind) -> usize;
    /// from_bytes followed by to_bytes: the re-serialization of an accepted encoding
    fn reserialize(&self, kind: KeyKind, b: &[u8]) -> Obs<Vec<u8>>;
    /// from_bytes, then write_exact into a buffer of `buflen` bytes pre-filled with 0xA5
    fn write_exact(&self, kind: KeyKind, b: &[u8], buflen: usize) -> Obs<Vec<u8>>;
    /// from_bytes(to_bytes(v)) == v  by the type's own `==` (public/private keys), by bytes for enc
    fn roundtrip_eq(&self, kind: KeyKind, b: &[u8]) -> Obs<bool>;
    /// `from_bytes(a) == from_bytes(b)` by the type's own `==` (public and private keys; encapsulated keys
    /// have no `==` and are compared by their serialization)
    fn values_equal(&self, kind: KeyKind, a: &[u8], b: &[u8]) -> Obs<bool>;
    fn derive_keypair(&self, ikm: &[u8]) -> Obs<(Vec<u8>, Vec<u8>)>;
    fn gen_keypair(&self, rng: &mut ScriptRng) -> Obs<(Vec<u8>, Vec<u8>)>;
    fn sk_to_pk(&self, sk: &[u8]) -> Obs<Vec<u8>>;
    /// (shared secret, enc)
    fn encap(&self, pk_r: &[u8], auth: Option<(&[u8], &[u8])>, rng: &mut ScriptRng) -> Obs<(Vec<u8>, Vec<u8>)>;
    fn decap(&self, sk_r: &[u8], auth_pk_s: Option<&[u8]>, enc: &[u8]) -> Obs<Vec<u8>>;
}

pub struct KemAdapter<K: KemT>(RKem, PhantomData<fn() -> K>);

fn de<T: Deserializable>(b: &[u8]) -> Result<T, HpkeError> {
    T::from_bytes(b)
}

/// Deserialization inside the adapter: a panic there must surface as Panic, an error as Pre
macro_rules! pre {
    ($e:expr) => {
        match guard(|| $e) {
            Obs::Ok(v) => v,
            Obs::Err(e) => return Obs::Pre(e),
            Obs::Pre(e) => return Obs::Pre(e),
            Obs::Panic(s) => return Obs::Panic(s),
        }
    };
}

impl<K: KemT> KemOps for KemAdapter<K> {
    fn id(&self) -> RKem {
        self.0
    }
    fn kem_id_const(&self) -> u16 {
        K::KEM_ID
    }
    fn size(&self, kind: KeyKind) -> usize {
        match kind {
            KeyKind::Public => K::PublicKey::size(),
            KeyKind::Private => K::PrivateKey::size(),
            KeyKind::Encapped => K::EncappedKey::size(),
        }
    }
    fn reserialize(&self, kind: KeyKind, b: &[u8]) -> Obs<Vec<u8>> {
        guard(|| {
            Ok(match kind {
                KeyKind::Public => de::<K::PublicKey>(b)?.to_bytes().to_vec(),
                KeyKind::Private => de::<K::PrivateKey>(b)?.to_bytes().to_vec(),
                KeyKind::Encapped => de::<K::EncappedKey>(b)?.to_bytes().to_vec(),
            })
        })
    }
    fn write_exact(&self, kind: KeyKind, b: &[u8], buflen: usize) -> Obs<Vec<u8>> {
        let mut buf = vec![0xA5u8; buflen];
        match kind {
            KeyKind::Public => {
                let v = pre!(de::<K::PublicKey>(b));
                guard_val(|| v.write_exact(&mut buf)).map(|_| buf)
            }
            KeyKind::Private => {
                let v = pre!(de::<K::PrivateKey>(b));
                guard_val(|| v.write_exact(&mut buf)).map(|_| buf)
            }
            KeyKind::Encapped => {
                let v = pre!(de::<K::EncappedKey>(b));
                guard_val(|| v.write_exact(&mut buf)).map(|_| buf)
            }
        }
    }
    fn roundtrip_eq(&self, kind: KeyKind, b: &[u8]) -> Obs<bool> {
        guard(|| {
            Ok(match kind {
                KeyKind::Public => {
                    let v = de::<K::PublicKey>(b)?;
                    let w = de::<K::PublicKey>(&v.to_bytes())?;
                    v == w
                }
                KeyKind::Private => {
                    let v = de::<K::PrivateKey>(b)?;
                    let w = de::<K::PrivateKey>(&v.to_bytes())?;
                    let fresh = v == w;
                    // ... and the value still equals its re-deserialization after it has been USED (a key object that
                    // caches something on first use is still the same key)
                    let pk = K::sk_to_pk(&v);
                    let _ = K::decap(&v, None, &de::<K::EncappedKey>(&pk.to_bytes())?);
                    let w2 = de::<K::PrivateKey>(&v.to_bytes())?;
                    fresh && v == w2 && w2 == v
                }
                KeyKind::Encapped => {
                    let v = de::<K::EncappedKey>(b)?;
                    let w = de::<K::EncappedKey>(&v.to_bytes())?;
                    v.to_bytes() == w.to_bytes()
                }
            })
        })
    }
    fn values_equal(&self, kind: KeyKind, a: &[u8], b: &[u8]) -> Obs<bool> {
        guard(|| {
            Ok(match kind {
                KeyKind::Public => de::<K::PublicKey>(a)? == de::<K::PublicKey>(b)?,
                KeyKind::Private => de::<K::PrivateKey>(a)? == de::<K::PrivateKey>(b)?,
                KeyKind::Encapped => de::<K::EncappedKey>(a)?.to_bytes() == de::<K::EncappedKey>(b)?.to_bytes(),
            })
        })
    }
    fn derive_keypair(&self, ikm: &[u8]) -> Obs<(Vec<u8>, Vec<u8>)> {
        guard_val(|| {
            let (sk, pk) = K::derive_keypair(ikm);
            (sk.to_bytes().to_vec(), pk.to_bytes().to_vec())
        })
    }
    fn gen_keypair(&self, rng: &mut ScriptRng) -> Obs<(Vec<u8>, Vec<u8>)> {
        guard_val(|| {
            let (sk, pk) = K::gen_keypair(rng);
            (sk.to_bytes().to_vec(), pk.to_bytes().to_vec())
        })
    }
    fn sk_to_pk(&self, sk: &[u8]) -> Obs<Vec<u8>> {
        let sk = pre!(de::<K::PrivateKey>(sk));
        guard_val(|| K::sk_to_pk(&sk).to_bytes().to_vec())
    }
    fn encap(&self, pk_r: &[u8], auth: Option<(&[u8], &[u8])>, rng: &mut ScriptRng) -> Obs<(Vec<u8>, Vec<u8>)> {
        let pk_r = pre!(de::<K::PublicKey>(pk_r));
        let auth_t = match auth {
            Some((sk, pk)) => Some((pre!(de::<K::PrivateKey>(sk)), pre!(de::<K::PublicKey>(pk)))),
            None => None,
        };
        guard(|| {
            let (ss, enc) = K::encap(&pk_r, auth_t.as_ref().map(|(a, b)| (a, b)), rng)?;
            Ok((ss.0.to_vec(), enc.to_bytes().to_vec()))
        })
    }
    fn decap(&self, sk_r: &[u8], auth_pk_s: Option<&[u8]>, enc: &[u8]) -> Obs<Vec<u8>> {
        let sk_r = pre!(de::<K::PrivateKey>(sk_r));
        let enc = pre!(de::<K::EncappedKey>(enc));
        let pk_s = match auth_pk_s {
            Some(pk) => Some(pre!(de::<K::PublicKey>(pk))),
            None => None,
        };
        guard(|| Ok(K::decap(&sk_r, pk_s.as_ref(), &enc)?.0.to_vec()))
    }
}

// ------------------------------------------------------------------------------------------------
// Live contexts
// ------------------------------------------------------------------------------------------------

pub trait SCtx {
    /// allocating seal: ct || tag
    fn seal(&mut self, pt: &[u8], aad: &[u8]) -> Obs<Vec<u8>>;
    /// in-place detached seal: `buf` is overwritten, the tag bytes are returned
    fn seal_ip(&mut self, buf: &mut [u8], aad: &[u8]) -> Obs<Vec<u8>>;
    fn export(&self, ctx: &[u8], len: usize) -> Obs<Vec<u8>>;
    fn set_seq(&mut self, seq: u64);
    fn seq_state(&self) -> (u64, bool);
}

pub trait RCtx {
    fn open(&mut self, ct: &[u8], aad: &[u8]) -> Obs<Vec<u8>>;
    /// in-place detached open; `tag` is deserialized with `AeadTag::from_bytes` (failure = Pre)
    fn open_ip(&mut self, buf: &mut [u8], aad: &[u8], tag: &[u8]) -> Obs<()>;
    fn export(&self, ctx: &[u8], len: usize) -> Obs<Vec<u8>>;
    fn set_seq(&mut self, seq: u64);
    fn seq_state(&self) -> (u64, bool);
}

struct S<A: AeadT, D: KdfT, K: KemT>(AeadCtxS<A, D, K>);
struct R<A: AeadT, D: KdfT, K: KemT>(AeadCtxR<A, D, K>);

impl<A: AeadT, D: KdfT, K: KemT> SCtx for S<A, D, K> {
    fn seal(&mut self, pt: &[u8], aad: &[u8]) -> Obs<Vec<u8>> {
        guard(|| self.0.seal(pt, aad))
    }
    fn seal_ip(&mut self, buf: &mut [u8], aad: &[u8]) -> Obs<Vec<u8>> {
        guard(|| Ok(self.0.seal_in_place_detached(buf, aad)?.to_bytes().to_vec()))
    }
    fn export(&self, ctx: &[u8], len: usize) -> Obs<Vec<u8>> {
        let mut out = vec![0x5Au8; len];
        guard(|| self.0.export(ctx, &mut out)).map(|_| out)
    }
    #[cfg(hpke_verif)]
    fn set_seq(&mut self, seq: u64) {
        self.0.verif_set_seq(seq)
    }
    #[cfg(hpke_verif)]
    fn seq_state(&self) -> (u64, bool) {
        self.0.verif_seq_state()
    }
    #[cfg(not(hpke_verif))]
    fn set_seq(&mut self, _seq: u64) {
        panic!("harness built without --cfg hpke_verif")
    }
    #[cfg(not(hpke_verif))]
    fn seq_state(&self) -> (u64, bool) {
        panic!("harness built without --cfg hpke_verif")
    }
}

impl<A: AeadT, D: KdfT, K: KemT> RCtx for R<A, D, K> {
    fn open(&mut self, ct: &[u8], aad: &[u8]) -> Obs<Vec<u8>> {
        guard(|| self.0.open(ct, aad))
    }
    fn open_ip(&mut self, buf: &mut [u8], aad: &[u8], tag: &[u8]) -> Obs<()> {
        let tag = pre!(AeadTag::<A>::from_bytes(tag));
        guard(|| self.0.open_in_place_detached(buf, aad, &tag))
    }
    fn export(&self, ctx: &[u8], len: usize) -> Obs<Vec<u8>> {
        let mut out = vec![0x5Au8; len];
        guard(|| self.0.export(ctx, &mut out)).map(|_| out)
    }
    #[cfg(hpke_verif)]
    fn set_seq(&mut self, seq: u64) {
        self.0.verif_set_seq(seq)
    }
    #[cfg(hpke_verif)]
    fn seq_state(&self) -> (u64, bool) {
        self.0.verif_seq_state()
    }
    #[cfg(not(hpke_verif))]
    fn set_seq(&mut self, _seq: u64) {
        panic!("harness built without --cfg hpke_verif")
    }
    #[cfg(not(hpke_verif))]
    fn seq_state(&self) -> (u64, bool) {
        panic!("harness built without --cfg hpke_verif")
    }
}

// ------------------------------------------------------------------------------------------------
// Suite-level operations (48 instances)
// ------------------------------------------------------------------------------------------------

pub trait SuiteOps: Sync {
    fn id(&self) -> SuiteId;
    /// (KEM_ID, KDF_ID, AEAD_ID) constants as the crate declares them
    fn id_consts(&self) -> (u16, u16, u16);
    fn kem(&self) -> &'static dyn KemOps;
    fn tag_size(&self) -> usize;
    fn tag_reserialize(&self, b: &[u8]) -> Obs<Vec<u8>>;
    fn tag_write_exact(&self, b: &[u8], buflen: usize) -> Obs<Vec<u8>>;
    fn setup_sender(&self, mode: &ModeSpec, pk_r: &[u8], info: &[u8], rng: &mut ScriptRng) -> Obs<(Vec<u8>, Box<dyn SCtx>)>;
    fn setup_receiver(&self, mode: &ModeSpec, sk_r: &[u8], enc: &[u8], info: &[u8]) -> Obs<Box<dyn RCtx>>;
    /// (enc, ct || tag)
    fn single_shot_seal(&self, mode: &ModeSpec, pk_r: &[u8], info: &[u8], pt: &[u8], aad: &[u8], rng: &mut ScriptRng) -> Obs<(Vec<u8>, Vec<u8>)>;
    /// (enc, tag); buf overwritten
    fn single_shot_seal_ip(&self, mode: &ModeSpec, pk_r: &[u8], info: &[u8], buf: &mut [u8], aad: &[u8], rng: &mut ScriptRng) -> Obs<(Vec<u8>, Vec<u8>)>;
    fn single_shot_open(&self, mode: &ModeSpec, sk_r: &[u8], enc: &[u8], info: &[u8], ct: &[u8], aad: &[u8]) -> Obs<Vec<u8>>;
    fn single_shot_open_ip(&self, mode: &ModeSpec, sk_r: &[u8], enc: &[u8], info: &[u8], buf: &mut [u8], aad: &[u8], tag: &[u8]) -> Obs<()>;
    /// C16: see props/c16.rs
    fn drop_probe(&self, req: &crate::props::c16::ProbeReq) -> Result<crate::props::c16::ProbeOut, String>;
}

pub struct SuiteAdapter<A: AeadT, D: KdfT, K: KemT> {
    pub id: SuiteId,
    pub kem: &'static dyn KemOps,
    _p: PhantomData<fn() -> (A, D, K)>,
}

pub fn psk_bundle<'a>(m: &'a ModeSpec) -> Result<PskBundle<'a>, HpkeError> {
    PskBundle::new(&m.psk, &m.psk_id)
}

pub fn mode_s<'a, K: KemT>(m: &'a ModeSpec) -> Result<OpModeS<'a, K>, HpkeError> {
    Ok(match m.kind {
        0 => OpModeS::Base,
        1 => OpModeS::Psk(psk_bundle(m)?),
        2 => OpModeS::Auth((de::<K::PrivateKey>(&m.sk_s)?, de::<K::PublicKey>(&m.pk_s)?)),
        _ => OpModeS::AuthPsk((de::<K::PrivateKey>(&m.sk_s)?, de::<K::PublicKey>(&m.pk_s)?), psk_bundle(m)?),
    })
}

pub fn mode_r<'a, K: KemT>(m: &'a ModeSpec) -> Result<OpModeR<'a, K>, HpkeError> {
    Ok(match m.kind {
        0 => OpModeR::Base,
        1 => OpModeR::Psk(psk_bundle(m)?),
        2 => OpModeR::Auth(de::<K::PublicKey>(&m.pk_s)?),
        _ => OpModeR::AuthPsk(de::<K::PublicKey>(&m.pk_s)?, psk_bundle(m)?),
    })
}

impl<A: AeadT + 'static, D: KdfT + 'static, K: KemT + 'static> SuiteOps for SuiteAdapter<A, D, K> {
    fn id(&self) -> SuiteId {
        self.id
    }
    fn id_consts(&self) -> (u16, u16, u16) {
        (K::KEM_ID, D::KDF_ID, A::AEAD_ID)
    }
    fn kem(&self) -> &'static dyn KemOps {
        self.kem
    }
    fn tag_size(&self) -> usize {
        AeadTag::<A>::size()
    }
    fn tag_reserialize(&self, b: &[u8]) -> Obs<Vec<u8>> {
        guard(|| Ok(AeadTag::<A>::from_bytes(b)?.to_bytes().to_vec()))
    }
    fn tag_write_exact(&self, b: &[u8], buflen: usize) -> Obs<Vec<u8>> {
        let t = pre!(AeadTag::<A>::from_bytes(b));
        let mut buf = vec![0xA5u8; buflen];
        guard_val(|| t.write_exact(&mut buf)).map(|_| buf)
    }
    fn setup_sender(&self, mode: &ModeSpec, pk_r: &[u8], info: &[u8], rng: &mut ScriptRng) -> Obs<(Vec<u8>, Box<dyn SCtx>)> {
        let m = pre!(mode_s::<K>(mode));
        let pk_r = pre!(de::<K::PublicKey>(pk_r));
        guard(|| {
            let (enc, ctx) = hpke::setup_sender::<A, D, K, _>(&m, &pk_r, info, rng)?;
            Ok((enc.to_bytes().to_vec(), Box::new(S(ctx)) as Box<dyn SCtx>))
        })
    }
    fn setup_receiver(&self, mode: &ModeSpec, sk_r: &[u8], enc: &[u8], info: &[u8]) -> Obs<Box<dyn RCtx>> {
        let m = pre!(mode_r::<K>(mode));
        let sk_r = pre!(de::<K::PrivateKey>(sk_r));
        let enc = pre!(de::<K::EncappedKey>(enc));
        guard(|| {
            let ctx = hpke::setup_receiver::<A, D, K>(&m, &sk_r, &enc, info)?;
            Ok(Box::new(R(ctx)) as Box<dyn RCtx>)
        })
    }
    fn single_shot_seal(&self, mode: &ModeSpec, pk_r: &[u8], info: &[u8], pt: &[u8], aad: &[u8], rng: &mut ScriptRng) -> Obs<(Vec<u8>, Vec<u8>)> {
        let m = pre!(mode_s::<K>(mode));
        let pk_r = pre!(de::<K::PublicKey>(pk_r));
        guard(|| {
            let (enc, ct) = hpke::single_shot_seal::<A, D, K, _>(&m, &pk_r, info, pt, aad, rng)?;
            Ok((enc.to_bytes().to_vec(), ct))
        })
    }
    fn single_shot_seal_ip(&self, mode: &ModeSpec, pk_r: &[u8], info: &[u8], buf: &mut [u8], aad: &[u8], rng: &mut ScriptRng) -> Obs<(Vec<u8>, Vec<u8>)> {
        let m = pre!(mode_s::<K>(mode));
        let pk_r = pre!(de::<K::PublicKey>(pk_r));
        guard(|| {
            let (enc, tag) = hpke::single_shot_seal_in_place_detached::<A, D, K, _>(&m, &pk_r, info, buf, aad, rng)?;
            Ok((enc.to_bytes().to_vec(), tag.to_bytes().to_vec()))
        })
    }
    fn single_shot_open(&self, mode: &ModeSpec, sk_r: &[u8], enc: &[u8], info: &[u8], ct: &[u8], aad: &[u8]) -> Obs<Vec<u8>> {
        let m = pre!(mode_r::<K>(mode));
        let sk_r = pre!(de::<K::PrivateKey>(sk_r));
        let enc = pre!(de::<K::EncappedKey>(enc));
        guard(|| hpke::single_shot_open::<A, D, K>(&m, &sk_r, &enc, info, ct, aad))
    }
    fn single_shot_open_ip(&self, mode: &ModeSpec, sk_r: &[u8], enc: &[u8], info: &[u8], buf: &mut [u8], aad: &[u8], tag: &[u8]) -> Obs<()> {
        let m = pre!(mode_r::<K>(mode));
        let sk_r = pre!(de::<K::PrivateKey>(sk_r));
        let enc = pre!(de::<K::EncappedKey>(enc));
        let tag = pre!(AeadTag::<A>::from_bytes(tag));
        guard(|| hpke::single_shot_open_in_place_detached::<A, D, K>(&m, &sk_r, &enc, info, buf, aad, &tag))
    }
    fn drop_probe(&self, req: &crate::props::c16::ProbeReq) -> Result<crate::props::c16::ProbeOut, String> {
        crate::props::c16::drop_probe::<A, D, K>(self.id, req)
    }
}

// ------------------------------------------------------------------------------------------------
// Registry
// ------------------------------------------------------------------------------------------------

static KEM_X: KemAdapter<X25519HkdfSha256> = KemAdapter(RKem::X25519, PhantomData);
static KEM_P256: KemAdapter<DhP256HkdfSha256> = KemAdapter(RKem::P256, PhantomData);
static KEM_P384: KemAdapter<DhP384HkdfSha384> = KemAdapter(RKem::P384, PhantomData);
static KEM_P521: KemAdapter<DhP521HkdfSha512> = KemAdapter(RKem::P521, PhantomData);

pub fn kem_ops(k: RKem) -> &'static dyn KemOps {
    match k {
        RKem::X25519 => &KEM_X,
        RKem::P256 => &KEM_P256,
        RKem::P384 => &KEM_P384,
        RKem::P521 => &KEM_P521,
    }
}

macro_rules! mk {
    ($a:ty, $d:ty, $k:ty, $id:expr) => {
        Box::new(SuiteAdapter::<$a, $d, $k> { id: $id, kem: kem_ops($id.kem), _p: PhantomData }) as Box<dyn SuiteOps>
    };
}
macro_rules! by_kem {
    ($a:ty, $d:ty, $id:expr) => {
        match $id.kem {
            RKem::X25519 => mk!($a, $d, X25519HkdfSha256, $id),
            RKem::P256 => mk!($a, $d, DhP256HkdfSha256, $id),
            RKem::P384 => mk!($a, $d, DhP384HkdfSha384, $id),
            RKem::P521 => mk!($a, $d, DhP521HkdfSha512, $id),
        }
    };
}
macro_rules! by_kdf {
    ($a:ty, $id:expr) => {
        match $id.kdf {
            RKdf::Sha256 => by_kem!($a, HkdfSha256, $id),
            RKdf::Sha384 => by_kem!($a, HkdfSha384, $id),
            RKdf::Sha512 => by_kem!($a, HkdfSha512, $id),
        }
    };
}

pub fn suite_ops(id: SuiteId) -> Box<dyn SuiteOps> {
    match id.aead {
        RAead::Aes128Gcm => by_kdf!(AesGcm128, id),
        RAead::Aes256Gcm => by_kdf!(AesGcm256, id),
        RAead::ChaCha20Poly1305 => by_kdf!(ChaCha20Poly1305, id),
        RAead::ExportOnly => by_kdf!(ExportOnlyAead, id),
    }
}

/// All 48 suites in a fixed order
pub fn all_suites() -> Vec<SuiteId> {
    let mut v = vec![];
    for kem in KEMS {
        for kdf in KDFS {
            for aead in AEADS {
                v.push(SuiteId { kem, kdf, aead });
            }
        }
    }
    v
}

/// The 36 suites with a sealing AEAD
pub fn seal_suites() -> Vec<SuiteId> {
    all_suites().into_iter().filter(|s| s.aead.can_seal()).collect()
}

/// The 12 (KEM, KDF) pairs with one AEAD
pub fn kemkdf_suites(aead: RAead) -> Vec<SuiteId> {
    all_suites().into_iter().filter(|s| s.aead == aead).collect()
}
