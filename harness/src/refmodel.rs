//! R1 - an executable transcription of RFC 9180, deliberately boring, written from the RFC text.
//! It shares no code with the `hpke` crate and does not use the `hkdf`/`hmac` crates. What it does
//! share with the crate's dependency tree are primitive cores only: SHA-2 compression (`sha2`), the
//! AEAD ciphers (through the allocating `Aead` API) and scalar multiplication. Those are pinned by
//! the independent pure-Python reference R2 (see /verif/ref).

use sha2::Digest;

// ---------------------------------------------------------------------------------------------
// Hash / HMAC / HKDF
// ---------------------------------------------------------------------------------------------

#[derive(Clone, Copy, Debug, PartialEq, Eq, Hash, PartialOrd, Ord, serde::Serialize, serde::Deserialize)]
pub enum Kdf {
    Sha256,
    Sha384,
    Sha512,
}

pub const KDFS: [Kdf; 3] = [Kdf::Sha256, Kdf::Sha384, Kdf::Sha512];

impl Kdf {
    pub fn id(self) -> u16 {
        match self {
            Kdf::Sha256 => 1,
            Kdf::Sha384 => 2,
            Kdf::Sha512 => 3,
        }
    }
    pub fn nh(self) -> usize {
        match self {
            Kdf::Sha256 => 32,
            Kdf::Sha384 => 48,
            Kdf::Sha512 => 64,
        }
    }
    fn block(self) -> usize {
        match self {
            Kdf::Sha256 => 64,
            _ => 128,
        }
    }
    pub fn hash(self, parts: &[&[u8]]) -> Vec<u8> {
        match self {
            Kdf::Sha256 => {
                let mut h = sha2::Sha256::new();
                for p in parts {
                    h.update(p);
                }
                h.finalize().to_vec()
            }
            Kdf::Sha384 => {
                let mut h = sha2::Sha384::new();
                for p in parts {
                    h.update(p);
                }
                h.finalize().to_vec()
            }
            Kdf::Sha512 => {
                let mut h = sha2::Sha512::new();
                for p in parts {
                    h.update(p);
                }
                h.finalize().to_vec()
            }
        }
    }
    /// RFC 2104
    pub fn hmac(self, key: &[u8], parts: &[&[u8]]) -> Vec<u8> {
        let b = self.block();
        let mut k = if key.len() > b { self.hash(&[key]) } else { key.to_vec() };
        k.resize(b, 0);
        let ipad: Vec<u8> = k.iter().map(|x| x ^ 0x36).collect();
        let opad: Vec<u8> = k.iter().map(|x| x ^ 0x5c).collect();
        let mut inner_parts: Vec<&[u8]> = vec![&ipad];
        inner_parts.extend_from_slice(parts);
        let inner = self.hash(&inner_parts);
        self.hash(&[&opad, &inner])
    }
    /// RFC 5869 §2.2
    pub fn extract(self, salt: &[u8], ikm_parts: &[&[u8]]) -> Vec<u8> {
        let zero = vec![0u8; self.nh()];
        let salt = if salt.is_empty() { &zero[..] } else { salt };
        self.hmac(salt, ikm_parts)
    }
    /// RFC 5869 §2.3. `None` iff L > 255*Nh
    pub fn expand(self, prk: &[u8], info_parts: &[&[u8]], l: usize) -> Option<Vec<u8>> {
        if l > 255 * self.nh() {
            return None;
        }
        let mut okm = Vec::with_capacity(l + self.nh());
        let mut t: Vec<u8> = vec![];
        let mut i = 1u8;
        while okm.len() < l {
            let ctr = [i];
            let mut parts: Vec<&[u8]> = vec![&t];
            parts.extend_from_slice(info_parts);
            parts.push(&ctr);
            let nt = self.hmac(prk, &parts);
            okm.extend_from_slice(&nt);
            t = nt;
            i = i.wrapping_add(1);
        }
        okm.truncate(l);
        Some(okm)
    }
    /// RFC 9180 §4 LabeledExtract
    pub fn labeled_extract(self, suite_id: &[u8], salt: &[u8], label: &[u8], ikm: &[u8]) -> Vec<u8> {
        self.extract(salt, &[b"HPKE-v1", suite_id, label, ikm])
    }
    /// RFC 9180 §4 LabeledExpand. `None` iff L > 255*Nh (then I2OSP(L,2) may not exist either)
    pub fn labeled_expand(self, suite_id: &[u8], prk: &[u8], label: &[u8], info: &[u8], l: usize) -> Option<Vec<u8>> {
        if l > 255 * self.nh() {
            return None;
        }
        let lb = [(l >> 8) as u8, (l & 0xff) as u8];
        self.expand(prk, &[&lb, b"HPKE-v1", suite_id, label, info], l)
    }
}

// ---------------------------------------------------------------------------------------------
// KEMs
// ---------------------------------------------------------------------------------------------

#[derive(Clone, Copy, Debug, PartialEq, Eq, Hash, PartialOrd, Ord, serde::Serialize, serde::Deserialize)]
pub enum Kem {
    X25519,
    P256,
    P384,
    P521,
}
pub const KEMS: [Kem; 4] = [Kem::X25519, Kem::P256, Kem::P384, Kem::P521];

macro_rules! nist_ops {
    ($m:ident, $krate:ident) => {
        mod $m {
            use $krate::elliptic_curve::Field;
            use $krate::elliptic_curve::sec1::{FromEncodedPoint, ToEncodedPoint};
            use $krate::elliptic_curve::PrimeField;
            use $krate::{AffinePoint, EncodedPoint, FieldBytes, ProjectivePoint, Scalar};

            /// big-endian bytes -> scalar in [1, n-1]
            pub fn scalar(sk: &[u8]) -> Option<Scalar> {
                let fb = FieldBytes::clone_from_slice(sk);
                let s: Option<Scalar> = Scalar::from_repr(fb).into();
                let s = s?;
                if bool::from(Field::is_zero(&s)) {
                    None
                } else {
                    Some(s)
                }
            }
            pub fn pk_of(sk: &[u8]) -> Option<Vec<u8>> {
                let s = scalar(sk)?;
                let p = (ProjectivePoint::GENERATOR * s).to_affine();
                Some(p.to_encoded_point(false).as_bytes().to_vec())
            }
            /// the uncompressed encoding of a point with x = 0, if the curve has one (y = sqrt(b))
            pub fn point_x_zero() -> Option<Vec<u8>> {
                use $krate::elliptic_curve::point::DecompressPoint;
                use $krate::elliptic_curve::subtle::Choice;
                let ap: Option<AffinePoint> = AffinePoint::decompress(&FieldBytes::default(), Choice::from(0)).into();
                Some(ap?.to_encoded_point(false).as_bytes().to_vec())
            }
            /// k * G for a small integer k
            pub fn small_multiple(k: u64) -> Vec<u8> {
                let p = (ProjectivePoint::GENERATOR * Scalar::from(k)).to_affine();
                p.to_encoded_point(false).as_bytes().to_vec()
            }
            /// the encoding of -P
            pub fn neg_pk(pk: &[u8]) -> Option<Vec<u8>> {
                let ep = EncodedPoint::from_bytes(pk).ok()?;
                let ap: Option<AffinePoint> = AffinePoint::from_encoded_point(&ep).into();
                let q = (-ProjectivePoint::from(ap?)).to_affine();
                Some(q.to_encoded_point(false).as_bytes().to_vec())
            }
            /// n - sk
            pub fn neg_sk(sk: &[u8]) -> Option<Vec<u8>> {
                let s = scalar(sk)?;
                Some((-s).to_repr().to_vec())
            }
            /// x coordinate of sk * pk
            pub fn dh(sk: &[u8], pk: &[u8]) -> Option<Vec<u8>> {
                let s = scalar(sk)?;
                let ep = EncodedPoint::from_bytes(pk).ok()?;
                let ap: Option<AffinePoint> = AffinePoint::from_encoded_point(&ep).into();
                let ap = ap?;
                let q = (ProjectivePoint::from(ap) * s).to_affine();
                let enc = q.to_encoded_point(false);
                Some(enc.x()?.to_vec())
            }
        }
    };
}
nist_ops!(np256, p256);
nist_ops!(np384, p384);
nist_ops!(np521, p521);

impl Kem {
    pub fn id(self) -> u16 {
        match self {
            Kem::X25519 => 0x0020,
            Kem::P256 => 0x0010,
            Kem::P384 => 0x0011,
            Kem::P521 => 0x0012,
        }
    }
    pub fn name(self) -> &'static str {
        match self {
            Kem::X25519 => "X25519",
            Kem::P256 => "P256",
            Kem::P384 => "P384",
            Kem::P521 => "P521",
        }
    }
    pub fn kdf(self) -> Kdf {
        match self {
            Kem::X25519 | Kem::P256 => Kdf::Sha256,
            Kem::P384 => Kdf::Sha384,
            Kem::P521 => Kdf::Sha512,
        }
    }
    pub fn nsecret(self) -> usize {
        self.kdf().nh()
    }
    pub fn nsk(self) -> usize {
        match self {
            Kem::X25519 | Kem::P256 => 32,
            Kem::P384 => 48,
            Kem::P521 => 66,
        }
    }
    pub fn npk(self) -> usize {
        match self {
            Kem::X25519 => 32,
            Kem::P256 => 65,
            Kem::P384 => 97,
            Kem::P521 => 133,
        }
    }
    pub fn nenc(self) -> usize {
        self.npk()
    }
    pub fn suite_id(self) -> Vec<u8> {
        let mut v = b"KEM".to_vec();
        v.extend_from_slice(&self.id().to_be_bytes());
        v
    }
    pub fn is_nist(self) -> bool {
        self != Kem::X25519
    }

    /// pk(sk). `None` if sk is not a valid private key
    pub fn pk_of(self, sk: &[u8]) -> Option<Vec<u8>> {
        if sk.len() != self.nsk() {
            return None;
        }
        match self {
            Kem::X25519 => {
                let mut k = [0u8; 32];
                k.copy_from_slice(sk);
                Some(x25519_dalek::x25519(k, x25519_dalek::X25519_BASEPOINT_BYTES).to_vec())
            }
            Kem::P256 => np256::pk_of(sk),
            Kem::P384 => np384::pk_of(sk),
            Kem::P521 => np521::pk_of(sk),
        }
    }

    /// RFC 9180 DH(sk, pk): `None` when the RFC says the operation must fail (all-zero X25519
    /// output) or an input is not a valid key
    pub fn dh(self, sk: &[u8], pk: &[u8]) -> Option<Vec<u8>> {
        if sk.len() != self.nsk() || pk.len() != self.npk() {
            return None;
        }
        match self {
            Kem::X25519 => {
                let mut k = [0u8; 32];
                k.copy_from_slice(sk);
                let mut u = [0u8; 32];
                u.copy_from_slice(pk);
                let r = x25519_dalek::x25519(k, u);
                if r.iter().all(|b| *b == 0) {
                    None
                } else {
                    Some(r.to_vec())
                }
            }
            Kem::P256 => np256::dh(sk, pk),
            Kem::P384 => np384::dh(sk, pk),
            Kem::P521 => np521::dh(sk, pk),
        }
    }

    /// NIST curves: the encoding of -P (same x coordinate, hence the same DH output); None for X25519
    pub fn neg_pk(self, pk: &[u8]) -> Option<Vec<u8>> {
        match self {
            Kem::X25519 => None,
            Kem::P256 => np256::neg_pk(pk),
            Kem::P384 => np384::neg_pk(pk),
            Kem::P521 => np521::neg_pk(pk),
        }
    }
    /// NIST curves: a valid public key whose x coordinate is 0 (y = sqrt(b)); None for X25519
    pub fn point_x_zero(self) -> Option<Vec<u8>> {
        match self {
            Kem::X25519 => None,
            Kem::P256 => np256::point_x_zero(),
            Kem::P384 => np384::point_x_zero(),
            Kem::P521 => np521::point_x_zero(),
        }
    }
    /// NIST curves: k*G; None for X25519
    pub fn small_multiple(self, k: u64) -> Option<Vec<u8>> {
        match self {
            Kem::X25519 => None,
            Kem::P256 => Some(np256::small_multiple(k)),
            Kem::P384 => Some(np384::small_multiple(k)),
            Kem::P521 => Some(np521::small_multiple(k)),
        }
    }
    /// NIST curves: n - sk (its public key is -P); None for X25519
    pub fn neg_sk(self, sk: &[u8]) -> Option<Vec<u8>> {
        match self {
            Kem::X25519 => None,
            Kem::P256 => np256::neg_sk(sk),
            Kem::P384 => np384::neg_sk(sk),
            Kem::P521 => np521::neg_sk(sk),
        }
    }

    /// RFC 7748 clamping (X25519 private keys are compared after clamping)
    pub fn clamp_sk(self, sk: &[u8]) -> Vec<u8> {
        let mut v = sk.to_vec();
        if self == Kem::X25519 && v.len() == 32 {
            v[0] &= 248;
            v[31] &= 127;
            v[31] |= 64;
        }
        v
    }

    /// RFC 9180 §7.1.3 DeriveKeyPair. Returns (sk bytes, pk bytes, number of candidates rejected)
    pub fn derive_keypair(self, ikm: &[u8]) -> (Vec<u8>, Vec<u8>, u32) {
        let h = self.kdf();
        let sid = self.suite_id();
        let dkp_prk = h.labeled_extract(&sid, b"", b"dkp_prk", ikm);
        match self {
            Kem::X25519 => {
                let sk = h.labeled_expand(&sid, &dkp_prk, b"sk", b"", 32).unwrap();
                let pk = self.pk_of(&sk).unwrap();
                (sk, pk, 0)
            }
            _ => {
                let bitmask = if self == Kem::P521 { 0x01 } else { 0xff };
                let mut counter = 0u32;
                loop {
                    assert!(counter <= 255, "DeriveKeyPairError");
                    let mut bytes = h
                        .labeled_expand(&sid, &dkp_prk, b"candidate", &[counter as u8], self.nsk())
                        .unwrap();
                    bytes[0] &= bitmask;
                    if let Some(pk) = self.pk_of(&bytes) {
                        return (bytes, pk, counter);
                    }
                    counter += 1;
                }
            }
        }
    }

    fn extract_and_expand(self, dh: &[u8], kem_context: &[u8]) -> Vec<u8> {
        let h = self.kdf();
        let sid = self.suite_id();
        let eae_prk = h.labeled_extract(&sid, b"", b"eae_prk", dh);
        h.labeled_expand(&sid, &eae_prk, b"shared_secret", kem_context, self.nsecret())
            .unwrap()
    }

    /// RFC 9180 §4.1 Encap / AuthEncap with a given ephemeral private key. `auth` is the sender's
    /// identity private key. Returns (shared_secret, enc); `None` if a DH fails.
    pub fn encap(self, pk_r: &[u8], auth_sk_s: Option<&[u8]>, sk_e: &[u8]) -> Option<(Vec<u8>, Vec<u8>)> {
        let pk_e = self.pk_of(sk_e)?;
        let mut dh = self.dh(sk_e, pk_r)?;
        let enc = pk_e;
        let mut kem_context = enc.clone();
        kem_context.extend_from_slice(pk_r);
        if let Some(sk_s) = auth_sk_s {
            dh.extend_from_slice(&self.dh(sk_s, pk_r)?);
            kem_context.extend_from_slice(&self.pk_of(sk_s)?);
        }
        Some((self.extract_and_expand(&dh, &kem_context), enc))
    }

    /// Like `encap` but the `pkSm` that enters kem_context is given explicitly (the crate's API
    /// takes the sender's public key from the caller instead of computing pk(skS))
    pub fn encap_with_pk_s(self, pk_r: &[u8], auth: Option<(&[u8], &[u8])>, sk_e: &[u8]) -> Option<(Vec<u8>, Vec<u8>)> {
        let pk_e = self.pk_of(sk_e)?;
        let mut dh = self.dh(sk_e, pk_r)?;
        let enc = pk_e;
        let mut kem_context = enc.clone();
        kem_context.extend_from_slice(pk_r);
        if let Some((sk_s, pk_s)) = auth {
            dh.extend_from_slice(&self.dh(sk_s, pk_r)?);
            kem_context.extend_from_slice(pk_s);
        }
        Some((self.extract_and_expand(&dh, &kem_context), enc))
    }

    /// RFC 9180 §4.1 Decap / AuthDecap
    pub fn decap(self, enc: &[u8], sk_r: &[u8], auth_pk_s: Option<&[u8]>) -> Option<Vec<u8>> {
        let mut dh = self.dh(sk_r, enc)?;
        let pk_r = self.pk_of(sk_r)?;
        let mut kem_context = enc.to_vec();
        kem_context.extend_from_slice(&pk_r);
        if let Some(pk_s) = auth_pk_s {
            dh.extend_from_slice(&self.dh(sk_r, pk_s)?);
            kem_context.extend_from_slice(pk_s);
        }
        Some(self.extract_and_expand(&dh, &kem_context))
    }
}

// ---------------------------------------------------------------------------------------------
// AEADs
// ---------------------------------------------------------------------------------------------

#[derive(Clone, Copy, Debug, PartialEq, Eq, Hash, PartialOrd, Ord, serde::Serialize, serde::Deserialize)]
pub enum Aead {
    Aes128Gcm,
    Aes256Gcm,
    ChaCha20Poly1305,
    ExportOnly,
}
pub const AEADS: [Aead; 4] = [Aead::Aes128Gcm, Aead::Aes256Gcm, Aead::ChaCha20Poly1305, Aead::ExportOnly];
pub const SEAL_AEADS: [Aead; 3] = [Aead::Aes128Gcm, Aead::Aes256Gcm, Aead::ChaCha20Poly1305];

impl Aead {
    pub fn id(self) -> u16 {
        match self {
            Aead::Aes128Gcm => 1,
            Aead::Aes256Gcm => 2,
            Aead::ChaCha20Poly1305 => 3,
            Aead::ExportOnly => 0xffff,
        }
    }
    pub fn name(self) -> &'static str {
        match self {
            Aead::Aes128Gcm => "AES128GCM",
            Aead::Aes256Gcm => "AES256GCM",
            Aead::ChaCha20Poly1305 => "ChaCha20Poly1305",
            Aead::ExportOnly => "ExportOnly",
        }
    }
    pub fn nk(self) -> usize {
        match self {
            Aead::Aes128Gcm => 16,
            Aead::Aes256Gcm | Aead::ChaCha20Poly1305 => 32,
            Aead::ExportOnly => 0,
        }
    }
    pub fn nn(self) -> usize {
        match self {
            Aead::ExportOnly => 0,
            _ => 12,
        }
    }
    pub fn nt(self) -> usize {
        match self {
            Aead::ExportOnly => 0,
            _ => 16,
        }
    }
    pub fn can_seal(self) -> bool {
        self != Aead::ExportOnly
    }
    /// AEAD.Seal(key, nonce, aad, pt) = ct || tag
    pub fn seal(self, key: &[u8], nonce: &[u8], aad: &[u8], pt: &[u8]) -> Vec<u8> {
        use aes_gcm::aead::{Aead as _, KeyInit, Payload};
        let p = Payload { msg: pt, aad };
        match self {
            Aead::Aes128Gcm => aes_gcm::Aes128Gcm::new_from_slice(key).unwrap().encrypt(nonce.into(), p).unwrap(),
            Aead::Aes256Gcm => aes_gcm::Aes256Gcm::new_from_slice(key).unwrap().encrypt(nonce.into(), p).unwrap(),
            Aead::ChaCha20Poly1305 => chacha20poly1305::ChaCha20Poly1305::new_from_slice(key)
                .unwrap()
                .encrypt(nonce.into(), p)
                .unwrap(),
            Aead::ExportOnly => panic!("R1: export-only suite cannot seal"),
        }
    }
    /// AEAD.Open; `None` = OpenError
    pub fn open(self, key: &[u8], nonce: &[u8], aad: &[u8], ct: &[u8]) -> Option<Vec<u8>> {
        use aes_gcm::aead::{Aead as _, KeyInit, Payload};
        let p = Payload { msg: ct, aad };
        match self {
            Aead::Aes128Gcm => aes_gcm::Aes128Gcm::new_from_slice(key).unwrap().decrypt(nonce.into(), p).ok(),
            Aead::Aes256Gcm => aes_gcm::Aes256Gcm::new_from_slice(key).unwrap().decrypt(nonce.into(), p).ok(),
            Aead::ChaCha20Poly1305 => chacha20poly1305::ChaCha20Poly1305::new_from_slice(key)
                .unwrap()
                .decrypt(nonce.into(), p)
                .ok(),
            Aead::ExportOnly => panic!("R1: export-only suite cannot open"),
        }
    }
}

// ---------------------------------------------------------------------------------------------
// Key schedule, contexts
// ---------------------------------------------------------------------------------------------

#[derive(Clone, Copy, Debug, PartialEq, Eq, Hash, PartialOrd, Ord, serde::Serialize, serde::Deserialize)]
pub enum Mode {
    Base,
    Psk,
    Auth,
    AuthPsk,
}
pub const MODES: [Mode; 4] = [Mode::Base, Mode::Psk, Mode::Auth, Mode::AuthPsk];
impl Mode {
    pub fn id(self) -> u8 {
        match self {
            Mode::Base => 0,
            Mode::Psk => 1,
            Mode::Auth => 2,
            Mode::AuthPsk => 3,
        }
    }
    pub fn has_psk(self) -> bool {
        matches!(self, Mode::Psk | Mode::AuthPsk)
    }
    pub fn has_auth(self) -> bool {
        matches!(self, Mode::Auth | Mode::AuthPsk)
    }
}

#[derive(Clone, Copy, Debug, PartialEq, Eq, Hash, PartialOrd, Ord, serde::Serialize, serde::Deserialize)]
pub struct SuiteId {
    pub kem: Kem,
    pub kdf: Kdf,
    pub aead: Aead,
}

impl SuiteId {
    pub fn suite_id(self) -> Vec<u8> {
        let mut v = b"HPKE".to_vec();
        v.extend_from_slice(&self.kem.id().to_be_bytes());
        v.extend_from_slice(&self.kdf.id().to_be_bytes());
        v.extend_from_slice(&self.aead.id().to_be_bytes());
        v
    }
    pub fn name(self) -> String {
        format!("{}-{:?}-{}", self.kem.name(), self.kdf, self.aead.name())
    }
}

/// The model's encryption context (RFC 9180 §5.1 / §5.2 / §5.3). `seq` is a u128 so that the
/// RFC's own bound `seq >= 2^(8*Nn) - 1` could be written down; the property under test bounds
/// the counter at 2^64 - 1, which is what `limit` holds.
#[derive(Clone, Debug, PartialEq, Eq)]
pub struct Ctx {
    pub suite: SuiteId,
    pub key: Vec<u8>,
    pub base_nonce: Vec<u8>,
    pub exporter_secret: Vec<u8>,
    pub seq: u128,
}

/// number of messages a context may process: sequence numbers 0 ..= 2^64-1
pub const MESSAGE_LIMIT: u128 = 1u128 << 64;

#[derive(Clone, Debug, PartialEq, Eq)]
pub enum CtxErr {
    MessageLimitReached,
    OpenError,
    ExportTooLong,
}

/// RFC 9180 §5.1 KeySchedule (VerifyPSKInputs is the caller's business: see DESIGN C02 domain note)
pub fn key_schedule(suite: SuiteId, mode: Mode, shared_secret: &[u8], info: &[u8], psk: &[u8], psk_id: &[u8]) -> Ctx {
    let h = suite.kdf;
    let sid = suite.suite_id();
    let psk_id_hash = h.labeled_extract(&sid, b"", b"psk_id_hash", psk_id);
    let info_hash = h.labeled_extract(&sid, b"", b"info_hash", info);
    let mut ksc = vec![mode.id()];
    ksc.extend_from_slice(&psk_id_hash);
    ksc.extend_from_slice(&info_hash);
    let secret = h.labeled_extract(&sid, shared_secret, b"secret", psk);
    let key = h.labeled_expand(&sid, &secret, b"key", &ksc, suite.aead.nk()).unwrap();
    let base_nonce = h.labeled_expand(&sid, &secret, b"base_nonce", &ksc, suite.aead.nn()).unwrap();
    let exporter_secret = h.labeled_expand(&sid, &secret, b"exp", &ksc, h.nh()).unwrap();
    Ctx { suite, key, base_nonce, exporter_secret, seq: 0 }
}

impl Ctx {
    /// ComputeNonce(seq) = base_nonce XOR I2OSP(seq, Nn)
    pub fn nonce_at(&self, seq: u128) -> Vec<u8> {
        let nn = self.base_nonce.len();
        let mut n = self.base_nonce.clone();
        for i in 0..nn {
            let shift = 8 * (nn - 1 - i);
            let b = if shift >= 128 { 0 } else { ((seq >> shift) & 0xff) as u8 };
            n[i] ^= b;
        }
        n
    }
    pub fn exhausted(&self) -> bool {
        self.seq >= MESSAGE_LIMIT
    }
    /// ContextS.Seal: ct || tag
    pub fn seal(&mut self, aad: &[u8], pt: &[u8]) -> Result<Vec<u8>, CtxErr> {
        if self.exhausted() {
            return Err(CtxErr::MessageLimitReached);
        }
        let ct = self.suite.aead.seal(&self.key, &self.nonce_at(self.seq), aad, pt);
        self.seq += 1;
        Ok(ct)
    }
    /// the ciphertext the context would produce at position `seq` (pure)
    pub fn seal_at(&self, seq: u128, aad: &[u8], pt: &[u8]) -> Vec<u8> {
        self.suite.aead.seal(&self.key, &self.nonce_at(seq), aad, pt)
    }
    /// ContextR.Open
    pub fn open(&mut self, aad: &[u8], ct: &[u8]) -> Result<Vec<u8>, CtxErr> {
        if self.exhausted() {
            return Err(CtxErr::MessageLimitReached);
        }
        if ct.len() < self.suite.aead.nt() {
            return Err(CtxErr::OpenError);
        }
        match self.suite.aead.open(&self.key, &self.nonce_at(self.seq), aad, ct) {
            Some(pt) => {
                self.seq += 1;
                Ok(pt)
            }
            None => Err(CtxErr::OpenError),
        }
    }
    /// Context.Export
    pub fn export(&self, exporter_context: &[u8], l: usize) -> Result<Vec<u8>, CtxErr> {
        self.suite
            .kdf
            .labeled_expand(&self.suite.suite_id(), &self.exporter_secret, b"sec", exporter_context, l)
            .ok_or(CtxErr::ExportTooLong)
    }
}

/// Everything a sender needs for Setup<MODE>S, in bytes
#[derive(Clone, Debug, Default)]
pub struct Party {
    pub sk: Vec<u8>,
    pub pk: Vec<u8>,
}

/// RFC 9180 §5.1.1-5.1.4 SetupS with the ephemeral key DeriveKeyPair(ikm_e).
/// `auth` = sender identity (sk_s, pk_s as handed to the API).
pub fn setup_s(
    suite: SuiteId,
    mode: Mode,
    pk_r: &[u8],
    info: &[u8],
    psk: &[u8],
    psk_id: &[u8],
    auth: Option<(&[u8], &[u8])>,
    ikm_e: &[u8],
) -> Option<(Vec<u8>, Ctx)> {
    let (sk_e, _pk_e, _) = suite.kem.derive_keypair(ikm_e);
    let auth = if mode.has_auth() { auth } else { None };
    let (ss, enc) = suite.kem.encap_with_pk_s(pk_r, auth, &sk_e)?;
    let (psk, psk_id): (&[u8], &[u8]) = if mode.has_psk() { (psk, psk_id) } else { (b"", b"") };
    Some((enc, key_schedule(suite, mode, &ss, info, psk, psk_id)))
}

/// RFC 9180 SetupR
pub fn setup_r(
    suite: SuiteId,
    mode: Mode,
    enc: &[u8],
    sk_r: &[u8],
    info: &[u8],
    psk: &[u8],
    psk_id: &[u8],
    pk_s: Option<&[u8]>,
) -> Option<Ctx> {
    let pk_s = if mode.has_auth() { pk_s } else { None };
    let ss = suite.kem.decap(enc, sk_r, pk_s)?;
    let (psk, psk_id): (&[u8], &[u8]) = if mode.has_psk() { (psk, psk_id) } else { (b"", b"") };
    Some(key_schedule(suite, mode, &ss, info, psk, psk_id))
}

// ---------------------------------------------------------------------------------------------
// Self test against RFC 9180 Appendix A (values reproduced independently by R2, see DESIGN App. A)
// ---------------------------------------------------------------------------------------------

pub fn self_test() -> Result<(), String> {
    use crate::obs::{hex, unhex};
    let chk = |what: &str, got: &[u8], want: &str| -> Result<(), String> {
        if hex(got) == want {
            Ok(())
        } else {
            Err(format!("R1 self-test {}: got {} want {}", what, hex(got), want))
        }
    };
    // RFC 5869 A.1
    let prk = Kdf::Sha256.extract(&unhex("000102030405060708090a0b0c"), &[&unhex("0b0b0b0b0b0b0b0b0b0b0b0b0b0b0b0b0b0b0b0b0b0b")]);
    chk("hkdf prk", &prk, "077709362c2e32df0ddc3f0dc47bba6390b6c73bb50f9c3122ec844ad7c2b3e5")?;
    let okm = Kdf::Sha256.expand(&prk, &[&unhex("f0f1f2f3f4f5f6f7f8f9")], 42).unwrap();
    chk("hkdf okm", &okm, "3cb25f25faacd57a90434f64d0362f2a2d2d0a90cf1a5a4c5db02d56ecc4c5bf34007208d5b887185865")?;
    // A.1.1
    let info = unhex("4f6465206f6e2061204772656369616e2055726e");
    let pt = unhex("4265617574792069732074727574682c20747275746820626561757479");
    let s = SuiteId { kem: Kem::X25519, kdf: Kdf::Sha256, aead: Aead::Aes128Gcm };
    let (sk_r, pk_r, _) = Kem::X25519.derive_keypair(&unhex("6db9df30aa07dd42ee5e8181afdb977e538f5e1fec8a06223f33f7013e525037"));
    chk("A.1.1 pkRm", &pk_r, "3948cfe0ad1ddb695d780e59077195da6c56506b027329794ab02bca80815c4d")?;
    let (enc, mut cs) = setup_s(s, Mode::Base, &pk_r, &info, b"", b"", None, &unhex("7268600d403fce431561aef583ee1613527cff655c1343f29812e66706df3234")).unwrap();
    chk("A.1.1 enc", &enc, "37fda3567bdbd628e88668c3c8d7e97d1d1253b6d4ea6d44c150f741f1bf4431")?;
    chk("A.1.1 key", &cs.key, "4531685d41d65f03dc48f6b8302c05b0")?;
    chk("A.1.1 base_nonce", &cs.base_nonce, "56d890e5accaaf011cff4b7d")?;
    chk("A.1.1 exporter_secret", &cs.exporter_secret, "45ff1c2e220db587171952c0592d5f5ebe103f1561a2614e38f2ffd47e99e3f8")?;
    let ct0 = cs.seal(b"Count-0", &pt).unwrap();
    chk("A.1.1 ct0", &ct0, "f938558b5d72f1a23810b4be2ab4f84331acc02fc97babc53a52ae8218a355a96d8770ac83d07bea87e13c512a")?;
    let ct1 = cs.seal(b"Count-1", &pt).unwrap();
    chk("A.1.1 ct1", &ct1, "af2d7e9ac9ae7e270f46ba1f975be53c09f8d875bdc8535458c2494e8a6eab251c03d0c22a56b8ca42c2063b84")?;
    chk("A.1.1 export", &cs.export(b"TestContext", 32).unwrap(), "e9e43065102c3836401bed8c3c3c75ae46be1639869391d62c61f1ec7af54931")?;
    let mut cr = setup_r(s, Mode::Base, &enc, &sk_r, &info, b"", b"", None).unwrap();
    if cr.open(b"Count-0", &ct0).as_deref() != Ok(&pt[..]) {
        return Err("R1 self-test A.1.1 open".into());
    }
    // A.1.4 AuthPsk
    let psk = unhex("0247fd33b913760fa1fa51e1892d9f307fbe65eb171e8132c2af18555a738b82");
    let psk_id = unhex("456e6e796e20447572696e206172616e204d6f726961");
    let (_sk_r, pk_r, _) = Kem::X25519.derive_keypair(&unhex("4b16221f3b269a88e207270b5e1de28cb01f847841b344b8314d6a622fe5ee90"));
    let (sk_s, pk_s, _) = Kem::X25519.derive_keypair(&unhex("62f77dcf5df0dd7eac54eac9f654f426d4161ec850cc65c54f8b65d2e0b4e345"));
    let (_enc, c) = setup_s(s, Mode::AuthPsk, &pk_r, &info, &psk, &psk_id, Some((&sk_s, &pk_s)), &unhex("4303619085a20ebcf18edd22782952b8a7161e1dbae6e46e143a52a96127cf84")).unwrap();
    chk("A.1.4 key", &c.key, "1364ead92c47aa7becfa95203037b19a")?;
    chk("A.1.4 exporter_secret", &c.exporter_secret, "f048d55eacbf60f9c6154bd4021774d1075ebf963c6adc71fa846f183ab2dde6")?;
    // A.3.1 P-256
    let s = SuiteId { kem: Kem::P256, kdf: Kdf::Sha256, aead: Aead::Aes128Gcm };
    let (sk_r, pk_r, _) = Kem::P256.derive_keypair(&unhex("668b37171f1072f3cf12ea8a236a45df23fc13b82af3609ad1e354f6ef817550"));
    chk("A.3.1 skRm", &sk_r, "f3ce7fdae57e1a310d87f1ebbde6f328be0a99cdbcadf4d6589cf29de4b8ffd2")?;
    let (_enc, c) = setup_s(s, Mode::Base, &pk_r, &info, b"", b"", None, &unhex("4270e54ffd08d79d5928020af4686d8f6b7d35dbe470265f1f5aa22816ce860e")).unwrap();
    chk("A.3.1 key", &c.key, "868c066ef58aae6dc589b6cfdd18f97e")?;
    chk("A.3.1 base_nonce", &c.base_nonce, "4e0bc5018beba4bf004cca59")?;
    // A.6.1 P-521 / SHA-512 / AES-256-GCM
    let s = SuiteId { kem: Kem::P521, kdf: Kdf::Sha512, aead: Aead::Aes256Gcm };
    let (_sk_r, pk_r, _) = Kem::P521.derive_keypair(&unhex("2ad954bbe39b7122529f7dde780bff626cd97f850d0784a432784e69d86eccaade43b6c10a8ffdb94bf943c6da479db137914ec835a7e715e36e45e29b587bab3bf1"));
    let (_enc, c) = setup_s(s, Mode::Base, &pk_r, &info, b"", b"", None, &unhex("7f06ab8215105fc46aceeb2e3dc5028b44364f960426eb0d8e4026c2f8b5d7e7a986688f1591abf5ab753c357a5d6f0440414b4ed4ede71317772ac98d9239f70904")).unwrap();
    chk("A.6.1 key", &c.key, "751e346ce8f0ddb2305c8a2a85c70d5cf559c53093656be636b9406d4d7d1b70")?;
    chk("A.6.1 base_nonce", &c.base_nonce, "55ff7a7d739c69f44b25447b")?;
    // A.2.1 ChaCha
    let s = SuiteId { kem: Kem::X25519, kdf: Kdf::Sha256, aead: Aead::ChaCha20Poly1305 };
    let (_sk_r, pk_r, _) = Kem::X25519.derive_keypair(&unhex("1ac01f181fdf9f352797655161c58b75c656a6cc2716dcb66372da835542e1df"));
    let (_enc, mut c) = setup_s(s, Mode::Base, &pk_r, &info, b"", b"", None, &unhex("909a9b35d3dc4713a5e72a4da274b55d3d3821a37e5d099e74a647db583a904b")).unwrap();
    chk("A.2.1 ct0", &c.seal(b"Count-0", &pt).unwrap(), "1c5250d8034ec2b784ba2cfd69dbdb8af406cfe3ff938e131f0def8c8b60b4db21993c62ce81883d2dd1b51a28")?;
    // A.7.1 export-only
    let s = SuiteId { kem: Kem::X25519, kdf: Kdf::Sha256, aead: Aead::ExportOnly };
    let (_sk_r, pk_r, _) = Kem::X25519.derive_keypair(&unhex("683ae0da1d22181e74ed2e503ebf82840deb1d5e872cade20f4b458d99783e31"));
    let (_enc, c) = setup_s(s, Mode::Base, &pk_r, &info, b"", b"", None, &unhex("55bc245ee4efda25d38f2d54d5bb6665291b99f8108a8c4b686c2b14893ea5d9")).unwrap();
    chk("A.7.1 export", &c.export(b"TestContext", 32).unwrap(), "ffaabc85a776136ca0c378e5d084c9140ab552b78f039d2e8775f26efff4c70e")?;
    // P-256 retry witness (Appendix B)
    let (sk, _pk, rej) = Kem::P256.derive_keypair(&unhex("00000000a432f1f9"));
    chk("P-256 witness sk", &sk, "f117c44aaad10f124d14afbf2a4bbae0f458cd15e79ea98b96d7efeb4f85b8be")?;
    if rej != 1 {
        return Err("R1 self-test: P-256 witness should reject exactly one candidate".into());
    }
    Ok(())
}
