//! C18 compile probe: every public type of every suite can be moved to and shared between threads.
//! If one of them stops being Send or Sync this file no longer compiles (E0277), which ./check
//! reports as a C18 violation. It is a separate binary so that nothing else depends on it.

use hpke::{
    aead::{AeadCtxR, AeadCtxS, AeadTag, AesGcm128, AesGcm256, ChaCha20Poly1305, ExportOnlyAead},
    kdf::{HkdfSha256, HkdfSha384, HkdfSha512},
    kem::{DhP256HkdfSha256, DhP384HkdfSha384, DhP521HkdfSha512, Kem as KemT, X25519HkdfSha256},
    HpkeError, OpModeR, OpModeS, PskBundle,
};

fn assert_send_sync<T: Send + Sync>() -> usize {
    1
}

macro_rules! suite {
    ($n:ident, $a:ty, $d:ty, $k:ty) => {
        $n += assert_send_sync::<AeadCtxS<$a, $d, $k>>();
        $n += assert_send_sync::<AeadCtxR<$a, $d, $k>>();
    };
}
macro_rules! kem {
    ($n:ident, $k:ty) => {
        $n += assert_send_sync::<<$k as KemT>::PublicKey>();
        $n += assert_send_sync::<<$k as KemT>::PrivateKey>();
        $n += assert_send_sync::<<$k as KemT>::EncappedKey>();
        $n += assert_send_sync::<OpModeS<'static, $k>>();
        $n += assert_send_sync::<OpModeR<'static, $k>>();
        $n += assert_send_sync::<hpke::kem::SharedSecret<$k>>();
        suite!($n, AesGcm128, HkdfSha256, $k);
        suite!($n, AesGcm128, HkdfSha384, $k);
        suite!($n, AesGcm128, HkdfSha512, $k);
        suite!($n, AesGcm256, HkdfSha256, $k);
        suite!($n, AesGcm256, HkdfSha384, $k);
        suite!($n, AesGcm256, HkdfSha512, $k);
        suite!($n, ChaCha20Poly1305, HkdfSha256, $k);
        suite!($n, ChaCha20Poly1305, HkdfSha384, $k);
        suite!($n, ChaCha20Poly1305, HkdfSha512, $k);
        suite!($n, ExportOnlyAead, HkdfSha256, $k);
        suite!($n, ExportOnlyAead, HkdfSha384, $k);
        suite!($n, ExportOnlyAead, HkdfSha512, $k);
    };
}

fn main() {
    let mut n = 0usize;
    kem!(n, X25519HkdfSha256);
    kem!(n, DhP256HkdfSha256);
    kem!(n, DhP384HkdfSha384);
    kem!(n, DhP521HkdfSha512);
    n += assert_send_sync::<AeadTag<AesGcm128>>();
    n += assert_send_sync::<AeadTag<AesGcm256>>();
    n += assert_send_sync::<AeadTag<ChaCha20Poly1305>>();
    n += assert_send_sync::<AeadTag<ExportOnlyAead>>();
    n += assert_send_sync::<PskBundle<'static>>();
    n += assert_send_sync::<HpkeError>();
    println!("{}", n);
}
