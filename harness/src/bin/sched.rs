//! C18 - no hidden state, also across threads.
//! E3a: ALL interleavings (operation granularity) of k scripted sessions on different suites / keys,
//!      every operation result compared with R1's value for that script in isolation; the same set
//!      re-run under thread placements (pinned, migrating, all 2-worker assignments of one script).
//! E3b: ALL schedules with at most B preemptions (iterative context bounding, B = 0,1,2) of real OS
//!      threads interleaved at the cfg(hpke_verif) scheduling points inside the library, under a
//!      hand-rolled baton scheduler; outputs compared with R1's sequential results.

use hpke::{
    aead::{Aead as AeadT, AeadCtxR, AeadCtxS, AesGcm128, AesGcm256, ChaCha20Poly1305},
    kdf::{HkdfSha256, HkdfSha512, Kdf as KdfT},
    kem::{DhP256HkdfSha256, Kem as KemT, X25519HkdfSha256},
    Deserializable, Serializable,
};
use hpke_mc::engine::{finish, replay_part, run_part, CaseOut, Cfg, Part, PartReport, Tier};
use hpke_mc::obs::{self, guard, Obs};
use hpke_mc::props::{keys, mode_spec, r1_setup_s, Keys};
use hpke_mc::refmodel::{self as r1, Aead, Kdf, Kem, Mode, SuiteId};
use hpke_mc::rng::{bytes, Fill, ScriptRng};
use hpke_mc::suites::{mode_r, mode_s, ModeSpec};
use serde::{Deserialize, Serialize};
use std::cell::Cell;
use std::path::PathBuf;
use std::sync::{Arc, Condvar, Mutex};
use std::time::Instant;

// ------------------------------------------------------------------------------------------------
// Sessions known to R1
// ------------------------------------------------------------------------------------------------

pub struct Fix {
    suite: SuiteId,
    k: Keys,
    m: ModeSpec,
    info: Vec<u8>,
    enc: Vec<u8>,
    /// (pt, aad, ct) for the first messages
    msgs: Vec<(Vec<u8>, Vec<u8>, Vec<u8>)>,
    export: Vec<u8>,
}

fn fix(suite: SuiteId, mode: Mode, tag: u64, seed: u64) -> Arc<Fix> {
    let k = keys(suite.kem, 18_000 + tag, seed);
    let info = bytes(Fill::Mix, 11, tag, seed);
    let m = mode_spec(mode, &k, &bytes(Fill::Mix, 32, 11 + tag, seed), &bytes(Fill::Mix, 9, 12 + tag, seed));
    let (enc, mut c) = r1_setup_s(suite, &m, &k.pk_r, &info, &k.ikm_e).expect("R1 setup");
    let mut msgs = vec![];
    for i in 0..2u64 {
        let pt = bytes(Fill::Mix, 5 + 12 * i as usize, 100 + i + tag, seed);
        let aad = bytes(Fill::Mix, 3 * i as usize, 200 + i + tag, seed);
        let ct = c.seal(&aad, &pt).unwrap();
        msgs.push((pt, aad, ct));
    }
    let export = c.export(b"e3", 40).unwrap();
    Arc::new(Fix { suite, k, m, info, enc, msgs, export })
}

fn enc_err<T>(o: Obs<T>, f: impl FnOnce(T) -> Vec<u8>) -> Vec<u8> {
    match o {
        Obs::Ok(v) => f(v),
        other => format!("!{}", other.class()).into_bytes(),
    }
}

/// One scripted party. `step(i)` performs operation i and returns its observable result as bytes.
pub trait Script: Send {
    fn step(&mut self, i: usize) -> Vec<u8>;
}

struct SenderScript<A: AeadT, D: KdfT, K: KemT> {
    fx: Arc<Fix>,
    ctx: Option<AeadCtxS<A, D, K>>,
}
impl<A: AeadT, D: KdfT, K: KemT> Script for SenderScript<A, D, K>
where
    AeadCtxS<A, D, K>: Send,
{
    fn step(&mut self, i: usize) -> Vec<u8> {
        let fx = self.fx.clone();
        match i {
            0 => {
                let o = guard(|| {
                    let m = mode_s::<K>(&fx.m)?;
                    let pk = K::PublicKey::from_bytes(&fx.k.pk_r)?;
                    let mut rng = ScriptRng::new(&fx.k.ikm_e);
                    hpke::setup_sender::<A, D, K, _>(&m, &pk, &fx.info, &mut rng)
                });
                enc_err(o, |(enc, ctx)| {
                    self.ctx = Some(ctx);
                    enc.to_bytes().to_vec()
                })
            }
            1 | 3 => {
                let (pt, aad, _) = &fx.msgs[if i == 1 { 0 } else { 1 }];
                match self.ctx.as_mut() {
                    Some(c) => enc_err(guard(|| c.seal(pt, aad)), |v| v),
                    None => b"!no-ctx".to_vec(),
                }
            }
            _ => match self.ctx.as_ref() {
                Some(c) => {
                    let mut out = vec![0u8; 40];
                    enc_err(guard(|| c.export(b"e3", &mut out)), |_| out.clone())
                }
                None => b"!no-ctx".to_vec(),
            },
        }
    }
}
fn sender_expect(fx: &Fix) -> Vec<Vec<u8>> {
    vec![fx.enc.clone(), fx.msgs[0].2.clone(), fx.export.clone(), fx.msgs[1].2.clone()]
}

struct ReceiverScript<A: AeadT, D: KdfT, K: KemT> {
    fx: Arc<Fix>,
    ctx: Option<AeadCtxR<A, D, K>>,
}
impl<A: AeadT, D: KdfT, K: KemT> Script for ReceiverScript<A, D, K>
where
    AeadCtxR<A, D, K>: Send,
{
    fn step(&mut self, i: usize) -> Vec<u8> {
        let fx = self.fx.clone();
        match i {
            0 => {
                let o = guard(|| {
                    let m = mode_r::<K>(&fx.m)?;
                    let sk = K::PrivateKey::from_bytes(&fx.k.sk_r)?;
                    let enc = K::EncappedKey::from_bytes(&fx.enc)?;
                    hpke::setup_receiver::<A, D, K>(&m, &sk, &enc, &fx.info)
                });
                enc_err(o, |ctx| {
                    self.ctx = Some(ctx);
                    b"ok".to_vec()
                })
            }
            1 | 3 => {
                let (_, aad, ct) = &fx.msgs[if i == 1 { 0 } else { 1 }];
                match self.ctx.as_mut() {
                    Some(c) => enc_err(guard(|| c.open(ct, aad)), |v| v),
                    None => b"!no-ctx".to_vec(),
                }
            }
            _ => match self.ctx.as_ref() {
                Some(c) => {
                    let mut out = vec![0u8; 40];
                    enc_err(guard(|| c.export(b"e3", &mut out)), |_| out.clone())
                }
                None => b"!no-ctx".to_vec(),
            },
        }
    }
}
fn receiver_expect(fx: &Fix) -> Vec<Vec<u8>> {
    vec![b"ok".to_vec(), fx.msgs[0].0.clone(), fx.export.clone(), fx.msgs[1].0.clone()]
}

/// key handling without any context: derive, deserialize / serialize, derive again
struct KeyScript<K: KemT> {
    ikm: Vec<u8>,
    _p: std::marker::PhantomData<fn() -> K>,
}
impl<K: KemT> Script for KeyScript<K> {
    fn step(&mut self, i: usize) -> Vec<u8> {
        let ikm = [&self.ikm[..], &[i as u8 / 2]].concat();
        match i % 2 {
            0 => enc_err(guard(|| {
                let (sk, pk) = K::derive_keypair(&ikm);
                Ok([&sk.to_bytes()[..], &pk.to_bytes()[..]].concat())
            }), |v| v),
            _ => enc_err(guard(|| {
                let (sk, _) = K::derive_keypair(&ikm);
                let sk2 = K::PrivateKey::from_bytes(&sk.to_bytes())?;
                Ok(K::sk_to_pk(&sk2).to_bytes().to_vec())
            }), |v| v),
        }
    }
}
fn key_expect(kem: Kem, ikm: &[u8], n: usize) -> Vec<Vec<u8>> {
    (0..n)
        .map(|i| {
            let ikm = [ikm, &[i as u8 / 2]].concat();
            let (sk, pk, _) = kem.derive_keypair(&ikm);
            if i % 2 == 0 {
                // X25519 private keys are compared after clamping elsewhere; here the crate returns the raw
                // expand output, which is what R1 returns too
                [&sk[..], &pk[..]].concat()
            } else {
                pk
            }
        })
        .collect()
}

/// a party whose every operation FAILS (small-order keys, tampered single-shot open): error paths run between the
/// other parties' operations
struct FailingScript {
    fx: Arc<Fix>,
}
impl Script for FailingScript {
    fn step(&mut self, i: usize) -> Vec<u8> {
        let fx = self.fx.clone();
        let ops = hpke_mc::suites::suite_ops(fx.suite);
        match i % 3 {
            0 => {
                let m = ModeSpec { kind: 2, psk: vec![], psk_id: vec![], sk_s: vec![], pk_s: vec![0u8; 32] };
                enc_err(ops.setup_receiver(&m, &fx.k.sk_r, &fx.enc, &fx.info).map(|_| vec![]), |v| v)
            }
            1 => enc_err(ops.setup_sender(&fx.m, &[0u8; 32], &fx.info, &mut ScriptRng::new(&fx.k.ikm_e)).map(|_| vec![]), |v| v),
            _ => {
                let mut ct = fx.msgs[0].2.clone();
                ct[0] ^= 1;
                enc_err(ops.single_shot_open(&fx.m, &fx.k.sk_r, &fx.enc, &fx.info, &ct, &fx.msgs[0].1), |v| v)
            }
        }
    }
}
fn failing_expect() -> Vec<Vec<u8>> {
    vec![
        enc_err(Obs::<Vec<u8>>::Err(hpke::HpkeError::DecapError), |v| v),
        enc_err(Obs::<Vec<u8>>::Err(hpke::HpkeError::EncapError), |v| v),
        enc_err(Obs::<Vec<u8>>::Err(hpke::HpkeError::OpenError), |v| v),
        enc_err(Obs::<Vec<u8>>::Err(hpke::HpkeError::DecapError), |v| v),
    ]
}

type Factory = Arc<dyn Fn() -> Box<dyn Script> + Send + Sync>;

struct ScriptDef {
    name: String,
    make: Factory,
    expect: Vec<Vec<u8>>,
}

const ALPHA: SuiteId = SuiteId { kem: Kem::X25519, kdf: Kdf::Sha256, aead: Aead::ChaCha20Poly1305 };
const BETA: SuiteId = SuiteId { kem: Kem::P256, kdf: Kdf::Sha512, aead: Aead::Aes128Gcm };
const GAMMA: SuiteId = SuiteId { kem: Kem::X25519, kdf: Kdf::Sha256, aead: Aead::Aes256Gcm };

fn script_defs(seed: u64) -> Vec<ScriptDef> {
    let fa = fix(ALPHA, Mode::Base, 1, seed);
    let fb = fix(BETA, Mode::AuthPsk, 2, seed);
    let fa2 = fix(ALPHA, Mode::Base, 3, seed); // same suite as S1, other keys
    let fg = fix(GAMMA, Mode::Base, 4, seed); // same KEM and KDF as alpha, other AEAD
    let mut v = vec![];
    {
        let f = fa.clone();
        v.push(ScriptDef { name: "S1 sender alpha".into(), expect: sender_expect(&fa), make: Arc::new(move || Box::new(SenderScript::<ChaCha20Poly1305, HkdfSha256, X25519HkdfSha256> { fx: f.clone(), ctx: None })) });
    }
    {
        let f = fb.clone();
        v.push(ScriptDef { name: "R2 receiver beta".into(), expect: receiver_expect(&fb), make: Arc::new(move || Box::new(ReceiverScript::<AesGcm128, HkdfSha512, DhP256HkdfSha256> { fx: f.clone(), ctx: None })) });
    }
    {
        let f = fg.clone();
        v.push(ScriptDef { name: "S4 sender gamma".into(), expect: sender_expect(&fg), make: Arc::new(move || Box::new(SenderScript::<AesGcm256, HkdfSha256, X25519HkdfSha256> { fx: f.clone(), ctx: None })) });
    }
    {
        let f = fa2.clone();
        v.push(ScriptDef { name: "R3 receiver alpha, other keys".into(), expect: receiver_expect(&fa2), make: Arc::new(move || Box::new(ReceiverScript::<ChaCha20Poly1305, HkdfSha256, X25519HkdfSha256> { fx: f.clone(), ctx: None })) });
    }
    {
        let f = fa.clone();
        v.push(ScriptDef { name: "R1 receiver alpha".into(), expect: receiver_expect(&fa), make: Arc::new(move || Box::new(ReceiverScript::<ChaCha20Poly1305, HkdfSha256, X25519HkdfSha256> { fx: f.clone(), ctx: None })) });
    }
    {
        let f = fb.clone();
        v.push(ScriptDef { name: "S2 sender beta".into(), expect: sender_expect(&fb), make: Arc::new(move || Box::new(SenderScript::<AesGcm128, HkdfSha512, DhP256HkdfSha256> { fx: f.clone(), ctx: None })) });
    }
    v.push(ScriptDef { name: "K5 keys P-256".into(), expect: key_expect(Kem::P256, b"k5", 4), make: Arc::new(|| Box::new(KeyScript::<DhP256HkdfSha256> { ikm: b"k5".to_vec(), _p: Default::default() })) });
    {
        let f = fa.clone();
        v.push(ScriptDef { name: "F7 failing party alpha".into(), expect: failing_expect(), make: Arc::new(move || Box::new(FailingScript { fx: f.clone() })) });
    }
    v
}

// ------------------------------------------------------------------------------------------------
// E3a
// ------------------------------------------------------------------------------------------------

#[derive(Clone, Copy, Debug, PartialEq, Eq, Serialize, Deserialize)]
enum Placement {
    /// everything on the calling thread
    Inline,
    /// script i pinned to worker i
    Pinned,
    /// every operation of a script on another worker than its previous one (contexts migrate)
    Migrate,
    /// script 0's operations assigned to two workers by this bit mask, the others on a third
    Split(u8),
}

#[derive(Clone, Debug, Serialize, Deserialize)]
struct IlCase {
    /// indices into script_defs
    scripts: Vec<usize>,
    ops: usize,
    placement: Placement,
    /// first choices of the interleaving (which script moves); all completions are explored
    prefix: Vec<u8>,
}

struct E3a {
    defs: Vec<ScriptDef>,
    sets: Vec<(Vec<usize>, usize, Vec<Placement>, usize)>, // scripts, ops per script, placements, prefix length
}

type Job = (Box<dyn Script>, usize);
struct Workers {
    tx: Vec<std::sync::mpsc::Sender<Job>>,
    rx: Vec<std::sync::mpsc::Receiver<(Box<dyn Script>, Vec<u8>)>>,
}
impl Workers {
    fn new(n: usize) -> Workers {
        let mut tx = vec![];
        let mut rx = vec![];
        for _ in 0..n {
            let (jt, jr) = std::sync::mpsc::channel::<Job>();
            let (rt, rr) = std::sync::mpsc::channel();
            std::thread::spawn(move || {
                while let Ok((mut s, i)) = jr.recv() {
                    let out = s.step(i);
                    if rt.send((s, out)).is_err() {
                        break;
                    }
                }
            });
            tx.push(jt);
            rx.push(rr);
        }
        Workers { tx, rx }
    }
    fn run(&self, w: usize, s: Box<dyn Script>, i: usize) -> (Box<dyn Script>, Vec<u8>) {
        self.tx[w].send((s, i)).expect("worker gone");
        self.rx[w].recv().expect("worker died")
    }
}

impl E3a {
    fn run_interleaving(&self, out: &mut CaseOut, c: &IlCase, order: &[u8], workers: &Option<Workers>) {
        let mut scripts: Vec<Option<Box<dyn Script>>> = c.scripts.iter().map(|&d| Some((self.defs[d].make)())).collect();
        let mut next = vec![0usize; c.scripts.len()];
        for &si in order {
            let si = si as usize;
            let i = next[si];
            next[si] += 1;
            let s = scripts[si].take().unwrap();
            let (s, got) = match (c.placement, workers) {
                (Placement::Inline, _) | (_, None) => {
                    let mut s = s;
                    let g = s.step(i);
                    (s, g)
                }
                (Placement::Pinned, Some(w)) => w.run(si, s, i),
                (Placement::Migrate, Some(w)) => w.run((si + i) % w.tx.len(), s, i),
                (Placement::Split(mask), Some(w)) => {
                    let wi = if si == 0 { ((mask >> i) & 1) as usize } else { 2 };
                    w.run(wi, s, i)
                }
            };
            scripts[si] = Some(s);
            out.transitions += 1;
            let want = &self.defs[c.scripts[si]].expect[i];
            if got != *want {
                out.fail(format!(
                    "interleaving {:?} ({:?}): operation {} of script '{}' returned {} but in isolation (R1) it is {}",
                    order,
                    c.placement,
                    i,
                    self.defs[c.scripts[si]].name,
                    if got.first() == Some(&b'!') { String::from_utf8_lossy(&got).to_string() } else { obs::hx(&got) },
                    obs::hx(want)
                ));
                return;
            }
        }
        out.states += 1;
    }
}

impl Part for E3a {
    type Case = IlCase;
    fn name(&self) -> String {
        "E3a-op-interleavings".into()
    }
    fn rule(&self) -> String {
        "ALL interleavings (no partial-order reduction: independence is what is being tested) of k scripted parties x n operations each - senders and receivers on suites that differ in KEM, KDF and AEAD, on the same suite with other keys, on the same KEM/KDF with another AEAD, plus context-free key handling; every operation's result must equal R1's value for that script in isolation; the set is re-run with scripts pinned to worker threads, with every operation on a different worker than the script's previous one (contexts migrate between threads), and with all 2^n assignments of one script's operations to two workers; a case = one interleaving prefix with all its completions; states = complete interleavings".into()
    }
    fn bound(&self, _cfg: &Cfg) -> String {
        self.sets.iter().map(|(s, n, p, _)| format!("{} scripts x {} ops x {} placements", s.len(), n, p.len())).collect::<Vec<_>>().join("; ")
    }
    fn enumerate(&self, _cfg: &Cfg) -> Vec<IlCase> {
        let mut v = vec![];
        for (scripts, ops, placements, plen) in &self.sets {
            // all prefixes of length plen
            let mut prefixes: Vec<Vec<u8>> = vec![vec![]];
            for _ in 0..*plen {
                let mut nx = vec![];
                for p in &prefixes {
                    for s in 0..scripts.len() as u8 {
                        if p.iter().filter(|x| **x == s).count() < *ops {
                            let mut q = p.clone();
                            q.push(s);
                            nx.push(q);
                        }
                    }
                }
                prefixes = nx;
            }
            for &pl in placements {
                for p in &prefixes {
                    v.push(IlCase { scripts: scripts.clone(), ops: *ops, placement: pl, prefix: p.clone() });
                }
            }
        }
        v
    }
    fn run(&self, _cfg: &Cfg, c: &IlCase) -> CaseOut {
        let mut out = CaseOut::new();
        out.nontrivial = true;
        out.outcome = format!("{}x{}/{:?}", c.scripts.len(), c.ops, match c.placement { Placement::Split(_) => Placement::Split(0), p => p });
        let workers = if c.placement == Placement::Inline { None } else { Some(Workers::new(c.scripts.len().max(3))) };
        let k = c.scripts.len();
        let total = k * c.ops;
        // DFS over completions
        let mut stack: Vec<Vec<u8>> = vec![c.prefix.clone()];
        while let Some(p) = stack.pop() {
            if p.len() == total {
                self.run_interleaving(&mut out, c, &p, &workers);
                if out.mismatches.len() > 5 {
                    break;
                }
                continue;
            }
            for s in 0..k as u8 {
                if p.iter().filter(|x| **x == s).count() < c.ops {
                    let mut q = p.clone();
                    q.push(s);
                    stack.push(q);
                }
            }
        }
        out
    }
}

// ------------------------------------------------------------------------------------------------
// E3a': every ordered pair of (suite, mode) combinations, one session after the other in one process
// ------------------------------------------------------------------------------------------------

#[derive(Clone, Debug, Serialize, Deserialize)]
struct PairCase {
    a: (SuiteId, Mode),
    b: (SuiteId, Mode),
}

struct SuitePairs {
    modes: Vec<Mode>,
}

/// one complete session on the erased-suite adapter, every observable compared with R1
fn dyn_session(out: &mut CaseOut, suite: SuiteId, mode: Mode, tag: u64, seed: u64, what: &str) {
    use hpke_mc::suites::suite_ops;
    let ops = suite_ops(suite);
    let k = keys(suite.kem, 18_500 + tag, seed);
    let info = bytes(Fill::Mix, 13, tag, seed);
    let m = mode_spec(mode, &k, &bytes(Fill::Mix, 32, 11, seed), &bytes(Fill::Mix, 22, 12, seed));
    let (enc_ref, mut c) = match r1_setup_s(suite, &m, &k.pk_r, &info, &k.ikm_e) {
        Some(x) => x,
        None => {
            out.fail_machinery("R1 setup failed");
            return;
        }
    };
    let mut rng = ScriptRng::new(&k.ikm_e);
    out.transitions += 1;
    let mut s = match ops.setup_sender(&m, &k.pk_r, &info, &mut rng) {
        Obs::Ok((enc, s)) => {
            if enc != enc_ref {
                out.fail(format!("{}: enc differs from R1's", what));
            }
            s
        }
        o => {
            out.fail(format!("{}: setup_sender {}", what, o.map(|_| ()).class()));
            return;
        }
    };
    let want_ex = c.export(b"pair", 32).unwrap();
    out.transitions += 1;
    if s.export(b"pair", 32) != Obs::Ok(want_ex.clone()) {
        out.fail(format!("{}: sender export differs from R1's (the result depends on what ran before)", what));
    }
    let mut ct = None;
    if suite.aead.can_seal() {
        let w = c.seal(b"aad", b"pair sweep").unwrap();
        out.transitions += 1;
        if s.seal(b"pair sweep", b"aad") != Obs::Ok(w.clone()) {
            out.fail(format!("{}: ciphertext differs from R1's", what));
        }
        ct = Some(w);
    }
    out.transitions += 1;
    match ops.setup_receiver(&m, &k.sk_r, &enc_ref, &info) {
        Obs::Ok(mut r) => {
            if r.export(b"pair", 32) != Obs::Ok(want_ex) {
                out.fail(format!("{}: receiver export differs from R1's", what));
            }
            if let Some(w) = ct {
                out.transitions += 1;
                if r.open(&w, b"aad") != Obs::Ok(b"pair sweep".to_vec()) {
                    out.fail(format!("{}: receiver cannot open R1's ciphertext", what));
                }
            }
        }
        o => out.fail(format!("{}: setup_receiver {}", what, o.map(|_| ()).class())),
    }
}

impl Part for SuitePairs {
    type Case = PairCase;
    fn name(&self) -> String {
        "E3a-suite-pair-sweep".into()
    }
    fn rule(&self) -> String {
        "every ordered pair (a, b) of (suite, mode) combinations over all 48 suites: a complete session of a, then of b, then of a again with other keys, in one process, every observable compared with R1 - exposes lazily initialised or last-value process-wide state keyed too coarsely (by KEM, KDF, AEAD or mode) whatever its collision pattern; cases run on many threads at once, so the order is additionally perturbed".into()
    }
    fn bound(&self, _cfg: &Cfg) -> String {
        format!("48 suites x modes {:?}: all ordered pairs", self.modes)
    }
    fn enumerate(&self, _cfg: &Cfg) -> Vec<PairCase> {
        let mut combos = vec![];
        for s in hpke_mc::suites::all_suites() {
            for &m in &self.modes {
                combos.push((s, m));
            }
        }
        let mut v = vec![];
        for &a in &combos {
            for &b in &combos {
                if a != b {
                    v.push(PairCase { a, b });
                }
            }
        }
        v
    }
    fn run(&self, cfg: &Cfg, c: &PairCase) -> CaseOut {
        let mut out = CaseOut::new();
        out.nontrivial = true;
        out.outcome = format!("{:?}->{:?}", c.a.1, c.b.1);
        dyn_session(&mut out, c.a.0, c.a.1, 1, cfg.seed, &format!("{} {:?} (first)", c.a.0.name(), c.a.1));
        dyn_session(&mut out, c.b.0, c.b.1, 2, cfg.seed, &format!("{} {:?} after {} {:?}", c.b.0.name(), c.b.1, c.a.0.name(), c.a.1));
        dyn_session(&mut out, c.a.0, c.a.1, 3, cfg.seed, &format!("{} {:?} again after {} {:?}", c.a.0.name(), c.a.1, c.b.0.name(), c.b.1));
        out.states = 1;
        out
    }
}

// ------------------------------------------------------------------------------------------------
// E3b: baton scheduler
// ------------------------------------------------------------------------------------------------

#[derive(Default)]
struct St {
    current: usize,
    alive: Vec<bool>,
    prefix: Vec<usize>,
    choices: Vec<usize>,
    enabled_n: Vec<usize>,
    running_enabled: Vec<bool>,
    trace: Vec<(usize, u32)>,
    active: bool,
    diverged: bool,
}
struct Sched {
    m: Mutex<St>,
    cv: Condvar,
}
static SCHED: std::sync::OnceLock<Sched> = std::sync::OnceLock::new();
fn sched() -> &'static Sched {
    SCHED.get_or_init(|| Sched { m: Mutex::new(St::default()), cv: Condvar::new() })
}
thread_local! { static TID: Cell<Option<usize>> = const { Cell::new(None) }; }

/// who runs next; `me` is the thread at the decision point (still enabled iff me_enabled).
/// canonical order of the enabled set: the running thread first if still enabled, then ascending ids
fn decide(st: &mut St, me: usize, me_enabled: bool) -> Option<usize> {
    let mut en: Vec<usize> = vec![];
    if me_enabled {
        en.push(me);
    }
    for (i, a) in st.alive.iter().enumerate() {
        if *a && i != me {
            en.push(i);
        }
    }
    if en.is_empty() {
        return None;
    }
    let i = st.choices.len();
    let mut c = if i < st.prefix.len() { st.prefix[i] } else { 0 };
    if c >= en.len() {
        // a divergence while replaying a prefix is a hard (machinery) error
        st.diverged = true;
        c = 0;
    }
    st.choices.push(c);
    st.enabled_n.push(en.len());
    st.running_enabled.push(me_enabled);
    Some(en[c])
}

fn hook(site: u32) {
    let Some(me) = TID.with(|t| t.get()) else { return };
    let s = sched();
    let mut st = s.m.lock().unwrap();
    if !st.active {
        return;
    }
    st.trace.push((me, site));
    let next = decide(&mut st, me, true).unwrap();
    if next != me {
        st.current = next;
        s.cv.notify_all();
        while st.current != me {
            st = s.cv.wait(st).unwrap();
        }
    }
}

type Body = Arc<dyn Fn() -> Vec<u8> + Send + Sync>;

#[derive(Serialize, Deserialize)]
struct Run {
    choices: Vec<usize>,
    enabled_n: Vec<usize>,
    running_enabled: Vec<bool>,
    trace: Vec<(usize, u32)>,
    outs: Vec<Vec<u8>>,
    diverged: bool,
}

fn run_schedule(prefix: &[usize], bodies: &[Body]) -> Run {
    let s = sched();
    {
        let mut st = s.m.lock().unwrap();
        *st = St { current: 0, alive: vec![true; bodies.len()], prefix: prefix.to_vec(), active: true, ..Default::default() };
    }
    let hs: Vec<_> = bodies
        .iter()
        .enumerate()
        .map(|(i, b)| {
            let b = b.clone();
            std::thread::spawn(move || {
                TID.with(|t| t.set(Some(i)));
                {
                    let s = sched();
                    let mut st = s.m.lock().unwrap();
                    while st.current != i {
                        st = s.cv.wait(st).unwrap();
                    }
                }
                let out = std::panic::catch_unwind(std::panic::AssertUnwindSafe(|| b())).unwrap_or_else(|_| b"!body-panicked".to_vec());
                let s = sched();
                let mut st = s.m.lock().unwrap();
                st.alive[i] = false;
                if let Some(n) = decide(&mut st, i, false) {
                    st.current = n;
                    s.cv.notify_all();
                }
                out
            })
        })
        .collect();
    let outs = hs.into_iter().map(|h| h.join().unwrap_or_else(|_| b"!thread-panicked".to_vec())).collect();
    let mut st = s.m.lock().unwrap();
    st.active = false;
    Run { choices: st.choices.clone(), enabled_n: st.enabled_n.clone(), running_enabled: st.running_enabled.clone(), trace: st.trace.clone(), outs, diverged: st.diverged }
}

struct Scenario {
    name: String,
    bodies: Vec<Body>,
    expect: Vec<Vec<u8>>,
    /// run sequentially (scheduler inactive) before every schedule, alternating by schedule parity, so
    /// that process-wide state a cache might hold is not always what the scheduled threads need
    prelude: Vec<Body>,
}

fn script_body(def: &ScriptDef, n: usize) -> Body {
    let make = def.make.clone();
    Arc::new(move || {
        let mut s = make();
        let mut out = vec![];
        for i in 0..n {
            let r = s.step(i);
            out.extend_from_slice(&(r.len() as u32).to_be_bytes());
            out.extend_from_slice(&r);
        }
        out
    })
}
fn script_expect(def: &ScriptDef, n: usize) -> Vec<u8> {
    let mut out = vec![];
    for i in 0..n {
        out.extend_from_slice(&(def.expect[i].len() as u32).to_be_bytes());
        out.extend_from_slice(&def.expect[i]);
    }
    out
}

fn scenarios(seed: u64, thorough: bool) -> Vec<Scenario> {
    let defs = script_defs(seed);
    let by = |name: &str| defs.iter().find(|d| d.name.starts_with(name)).unwrap();
    let mut v = vec![];
    // X: concurrent exports from ONE shared context (&AeadCtxS and &AeadCtxR are Sync)
    {
        let fa = fix(ALPHA, Mode::Base, 1, seed);
        let m = mode_s::<X25519HkdfSha256>(&fa.m).unwrap();
        let pk = <X25519HkdfSha256 as KemT>::PublicKey::from_bytes(&fa.k.pk_r).unwrap();
        let mut rng = ScriptRng::new(&fa.k.ikm_e);
        let (_, ctx) = hpke::setup_sender::<ChaCha20Poly1305, HkdfSha256, X25519HkdfSha256, _>(&m, &pk, &fa.info, &mut rng).unwrap();
        let ctx = Arc::new(ctx);
        let mr = mode_r::<X25519HkdfSha256>(&fa.m).unwrap();
        let sk = <X25519HkdfSha256 as KemT>::PrivateKey::from_bytes(&fa.k.sk_r).unwrap();
        let encd = <X25519HkdfSha256 as KemT>::EncappedKey::from_bytes(&fa.enc).unwrap();
        let rctx = Arc::new(hpke::setup_receiver::<ChaCha20Poly1305, HkdfSha256, X25519HkdfSha256>(&mr, &sk, &encd, &fa.info).unwrap());
        let (_, refc) = r1_setup_s(ALPHA, &fa.m, &fa.k.pk_r, &fa.info, &fa.k.ikm_e).unwrap();
        let probes: Vec<(Vec<u8>, usize)> = vec![(b"c1".to_vec(), 32), (b"context-two".to_vec(), 70), (vec![], 33)];
        let n = if thorough { 3 } else { 2 };
        let mut bodies: Vec<Body> = vec![];
        let mut expect = vec![];
        for (i, (c, l)) in probes.iter().take(n).enumerate() {
            let (c, l) = (c.clone(), *l);
            expect.push(refc.export(&c, l).unwrap());
            if i % 2 == 0 {
                let ctx = ctx.clone();
                bodies.push(Arc::new(move || {
                    let mut o = vec![0u8; l];
                    match ctx.export(&c, &mut o) {
                        Ok(()) => o,
                        Err(e) => format!("!{:?}", e).into_bytes(),
                    }
                }));
            } else {
                let ctx = rctx.clone();
                bodies.push(Arc::new(move || {
                    let mut o = vec![0u8; l];
                    match ctx.export(&c, &mut o) {
                        Ok(()) => o,
                        Err(e) => format!("!{:?}", e).into_bytes(),
                    }
                }));
            }
        }
        // and both exports from the very same sender context
        let mut bodies2: Vec<Body> = vec![];
        let mut expect2 = vec![];
        for (c, l) in probes.iter().take(2) {
            let (c, l, ctx) = (c.clone(), *l, ctx.clone());
            expect2.push(refc.export(&c, l).unwrap());
            bodies2.push(Arc::new(move || {
                let mut o = vec![0u8; l];
                match ctx.export(&c, &mut o) {
                    Ok(()) => o,
                    Err(e) => format!("!{:?}", e).into_bytes(),
                }
            }));
        }
        v.push(Scenario { name: "X1 exports from one shared sender context".into(), bodies: bodies2, expect: expect2, prelude: vec![] });
        v.push(Scenario { name: "X2 exports from a sender and a receiver context of one session".into(), bodies, expect, prelude: vec![] });
    }
    // Y: sender session || receiver session, different suites, then the same suite
    let n = 3;
    v.push(Scenario {
        name: "Y1 sender(alpha) || receiver(beta)".into(),
        bodies: vec![script_body(by("S1"), n), script_body(by("R2"), n)],
        expect: vec![script_expect(by("S1"), n), script_expect(by("R2"), n)],
        prelude: vec![script_body(by("S4"), 2), script_body(by("R3"), 2)],
    });
    v.push(Scenario {
        name: "Y2 sender(alpha) || receiver(alpha, other keys)".into(),
        bodies: vec![script_body(by("S1"), n), script_body(by("R3"), n)],
        expect: vec![script_expect(by("S1"), n), script_expect(by("R3"), n)],
        prelude: vec![script_body(by("S2"), 2), script_body(by("R1"), 2)],
    });
    // two receivers with the SAME recipient key and suite (different script objects)
    v.push(Scenario {
        name: "Y3 receiver(alpha) || receiver(alpha), same recipient key".into(),
        bodies: vec![script_body(by("R1"), 2), script_body(by("R1"), 2)],
        expect: vec![script_expect(by("R1"), 2), script_expect(by("R1"), 2)],
        prelude: vec![script_body(by("R3"), 1), script_body(by("R2"), 1)],
    });
    v.push(Scenario {
        name: "Y4 sender(alpha) || sender(gamma): same KEM/KDF, other AEAD".into(),
        bodies: vec![script_body(by("S1"), 2), script_body(by("S4"), 2)],
        expect: vec![script_expect(by("S1"), 2), script_expect(by("S4"), 2)],
        prelude: vec![script_body(by("R2"), 1), script_body(by("S1"), 1)],
    });
    // Z: key handling
    v.push(Scenario {
        name: "Z keys(P-256) || sender(beta) setup".into(),
        bodies: vec![script_body(by("K5"), 2), script_body(by("S2"), 1)],
        expect: vec![script_expect(by("K5"), 2), script_expect(by("S2"), 1)],
        prelude: vec![],
    });
    if thorough {
        v.push(Scenario {
            name: "W three threads: sender(alpha) || receiver(beta) || sender(gamma)".into(),
            bodies: vec![script_body(by("S1"), 2), script_body(by("R2"), 2), script_body(by("S4"), 2)],
            expect: vec![script_expect(by("S1"), 2), script_expect(by("R2"), 2), script_expect(by("S4"), 2)],
            prelude: vec![],
        });
    }
    v
}


/// C06 under concurrency: an honest and a tampered copy of the same message are opened at the same time through the
/// same interface (same recipient key, same encapsulated key): the honest one must open, the tampered one must be
/// rejected, under every schedule - whatever the two calls may share inside the library
fn tamper_scenarios(seed: u64, thorough: bool) -> Vec<Scenario> {
    let mut v = vec![];
    let mut fixes = vec![(fix(ALPHA, Mode::Base, 61, seed), "alpha")];
    if thorough {
        fixes.push((fix(BETA, Mode::AuthPsk, 62, seed), "beta"));
    }
    for (fx, sname) in fixes {
        for iface in 0..4usize {
            let iname = ["open", "open_in_place_detached", "single_shot_open", "single_shot_open_in_place_detached"][iface];
            for (tname, where_) in [("ciphertext bit", 0usize), ("tag bit", 1)] {
                if !thorough && where_ == 1 && iface % 2 == 1 {
                    continue;
                }
                let mk = |tampered: bool| -> Body {
                    let fx = fx.clone();
                    let alpha = sname == "alpha";
                    Arc::new(move || {
                        let (_, aad, ct) = &fx.msgs[1];
                        let mut wire = ct.clone();
                        if tampered {
                            let i = if where_ == 0 { 2 } else { wire.len() - 3 };
                            wire[i] ^= 0x10;
                        }
                        let ops = hpke_mc::suites::suite_ops(if alpha { ALPHA } else { BETA });
                        // message #1 of the session: advance past message #0 first where a context is used
                        let nt = 16;
                        let res: Obs<Vec<u8>> = match iface {
                            0 | 1 => match ops.setup_receiver(&fx.m, &fx.k.sk_r, &fx.enc, &fx.info) {
                                Obs::Ok(mut r) => {
                                    let _ = r.open(&fx.msgs[0].2, &fx.msgs[0].1);
                                    if iface == 0 {
                                        r.open(&wire, aad)
                                    } else {
                                        let mut b = wire[..wire.len() - nt].to_vec();
                                        r.open_ip(&mut b, aad, &wire[wire.len() - nt..]).map(|_| b.clone())
                                    }
                                }
                                Obs::Err(e) => Obs::Err(e),
                                Obs::Pre(e) => Obs::Pre(e),
                                Obs::Panic(p) => Obs::Panic(p),
                            },
                            _ => {
                                // single-shot forms open message #0 of a session
                                let (_, aad0, ct0) = &fx.msgs[0];
                                let mut w0 = ct0.clone();
                                if tampered {
                                    let i = if where_ == 0 { 1 } else { w0.len() - 2 };
                                    w0[i] ^= 0x04;
                                }
                                if iface == 2 {
                                    ops.single_shot_open(&fx.m, &fx.k.sk_r, &fx.enc, &fx.info, &w0, aad0)
                                } else {
                                    let mut b = w0[..w0.len() - nt].to_vec();
                                    ops.single_shot_open_ip(&fx.m, &fx.k.sk_r, &fx.enc, &fx.info, &mut b, aad0, &w0[w0.len() - nt..]).map(|_| b.clone())
                                }
                            }
                        };
                        enc_err(res, |v| v)
                    })
                };
                let honest_pt = if iface < 2 { fx.msgs[1].0.clone() } else { fx.msgs[0].0.clone() };
                let rejected = enc_err(Obs::<Vec<u8>>::Err(hpke::HpkeError::OpenError), |v| v);
                v.push(Scenario {
                    name: format!("T{}{}{} honest || tampered ({}) {} on {}", iface, where_, &sname[..1], tname, iname, sname),
                    bodies: vec![mk(false), mk(true)],
                    expect: vec![honest_pt, rejected],
                    prelude: vec![],
                });
            }
        }
    }
    v
}


/// C07 under concurrency: a receiver whose setup differs from the sender's in one component runs while other key
/// schedules - among them one with exactly the sender's parameters - run on other threads: it must still end up with R1's
/// key material for ITS parameters (exports differ from the sender's, the sender's ciphertext is rejected)
fn binding_scenarios(seed: u64, thorough: bool) -> Vec<Scenario> {
    use hpke_mc::props::r1_setup_r;
    let mut v = vec![];
    let fx = fix(ALPHA, Mode::AuthPsk, 71, seed);
    let other = fix(ALPHA, Mode::Base, 72, seed);
    let recv_body = |m: ModeSpec, info: Vec<u8>, fx: Arc<Fix>| -> Body {
        Arc::new(move || {
            let ops = hpke_mc::suites::suite_ops(ALPHA);
            match ops.setup_receiver(&m, &fx.k.sk_r, &fx.enc, &info) {
                Obs::Ok(mut r) => {
                    let e = enc_err(r.export(b"bind", 32), |v| v);
                    let o = enc_err(r.open(&fx.msgs[0].2, &fx.msgs[0].1), |v| v);
                    [e, o].concat()
                }
                o => enc_err(o.map(|_| vec![]), |v| v),
            }
        })
    };
    let recv_expect = |m: &ModeSpec, info: &[u8], matching: bool| -> Vec<u8> {
        let r = r1_setup_r(ALPHA, m, &fx.enc, &fx.k.sk_r, info).expect("R1 setup_r");
        let e = r.export(b"bind", 32).unwrap();
        let o = if matching { fx.msgs[0].0.clone() } else { enc_err(Obs::<Vec<u8>>::Err(hpke::HpkeError::OpenError), |v| v) };
        [e, o].concat()
    };
    let other_body: Body = {
        let o = other.clone();
        Arc::new(move || {
            let ops = hpke_mc::suites::suite_ops(ALPHA);
            match ops.setup_sender(&o.m, &o.k.pk_r, &o.info, &mut ScriptRng::new(&o.k.ikm_e)) {
                Obs::Ok((enc, s)) => [enc, enc_err(s.export(b"e3", 40), |v| v)].concat(),
                x => enc_err(x.map(|_| vec![]), |v| v),
            }
        })
    };
    let other_expect = [other.enc.clone(), other.export.clone()].concat();
    let mut perturbed: Vec<(&str, ModeSpec, Vec<u8>)> = vec![("info || 00", fx.m.clone(), [&fx.info[..], &[0u8][..]].concat())];
    let mut m2 = fx.m.clone();
    let l = m2.psk_id.len();
    m2.psk_id[l - 1] ^= 1;
    perturbed.push(("last bit of psk_id flipped", m2, fx.info.clone()));
    if thorough {
        let mut m3 = fx.m.clone();
        m3.kind = 1; // Psk instead of AuthPsk
        m3.pk_s = vec![];
        m3.sk_s = vec![];
        perturbed.push(("mode Psk instead of AuthPsk", m3, fx.info.clone()));
        let mut m4 = fx.m.clone();
        m4.psk[0] ^= 0x80;
        perturbed.push(("first bit of psk flipped", m4, fx.info.clone()));
    }
    for (name, m, info) in perturbed {
        v.push(Scenario {
            name: format!("B-{} mismatched receiver ({}) || unrelated sender || matching receiver", v.len(), name),
            bodies: vec![recv_body(m.clone(), info.clone(), fx.clone()), other_body.clone(), recv_body(fx.m.clone(), fx.info.clone(), fx.clone())],
            expect: vec![recv_expect(&m, &info, false), other_expect.clone(), recv_expect(&fx.m, &fx.info, true)],
            prelude: vec![],
        });
    }
    v
}


// ------------------------------------------------------------------------------------------------
// E3i: cold-start schedules. E3b explores schedules inside ONE long-lived process, so anything that is
// initialised once per process (a lazily built table, a one-time self-check) is long done when a
// preemption lands in it. Here EVERY schedule runs in its own freshly started process: the first library
// calls of the process are the ones being interleaved
// ------------------------------------------------------------------------------------------------

/// scenarios whose bodies report, besides their results, whether this thread's drop ledger stayed clean
fn cold_scenarios(seed: u64) -> Vec<Scenario> {
    let mut v = vec![];
    let ledger_tail = |l0: [(u64, u64, u64); 4]| -> Vec<u8> {
        let l1 = hpke::verif::ledger();
        let dirty: u64 = (0..4).map(|i| l1[i].1 - l0[i].1).sum();
        let drops: u64 = (0..4).map(|i| l1[i].0 - l0[i].0).sum();
        format!("|drops>0:{}|dirty:{}", drops > 0, dirty).into_bytes()
    };
    for (name, sa, sb, ma, mb) in [
        ("C1 two senders, same suite", ALPHA, ALPHA, Mode::Base, Mode::Base),
        ("C2 sender(alpha) || receiver(beta)", ALPHA, BETA, Mode::Base, Mode::AuthPsk),
        ("C3 receiver(alpha) || receiver(gamma)", ALPHA, GAMMA, Mode::Base, Mode::Base),
    ] {
        let fa = fix(sa, ma, 91, seed);
        let fb = fix(sb, mb, 92, seed);
        let mk = move |fx: Arc<Fix>, sender: bool| -> (Body, Vec<u8>) {
            let expect = if sender { [fx.enc.clone(), fx.export.clone(), b"|drops>0:true|dirty:0".to_vec()].concat() } else { [fx.msgs[0].0.clone(), fx.export.clone(), b"|drops>0:true|dirty:0".to_vec()].concat() };
            let body: Body = Arc::new(move || {
                let ops = hpke_mc::suites::suite_ops(fx.suite);
                let l0 = hpke::verif::ledger();
                let mut out = if sender {
                    match ops.setup_sender(&fx.m, &fx.k.pk_r, &fx.info, &mut ScriptRng::new(&fx.k.ikm_e)) {
                        Obs::Ok((enc, s)) => [enc, enc_err(s.export(b"e3", 40), |v| v)].concat(),
                        o => enc_err(o.map(|_| vec![]), |v| v),
                    }
                } else {
                    match ops.setup_receiver(&fx.m, &fx.k.sk_r, &fx.enc, &fx.info) {
                        Obs::Ok(mut r) => [enc_err(r.open(&fx.msgs[0].2, &fx.msgs[0].1), |v| v), enc_err(r.export(b"e3", 40), |v| v)].concat(),
                        o => enc_err(o.map(|_| vec![]), |v| v),
                    }
                };
                // (the context has been dropped by now: its secrets must have been wiped on THIS thread's ledger)
                out.extend(ledger_tail(l0));
                out
            });
            (body, expect)
        };
        let first_is_sender = !name.starts_with("C3");
        let (b0, e0) = mk(fa, first_is_sender);
        let (b1, e1) = mk(fb, name.starts_with("C1"));
        v.push(Scenario { name: name.into(), bodies: vec![b0, b1], expect: vec![e0, e1], prelude: vec![] });
    }
    v
}

/// child: `sched --cold <seed> <scenario index> [choices...]` runs ONE schedule and prints it as JSON
fn cold_child(args: &[String]) -> ! {
    obs::install_panic_hook();
    hpke::verif::set_sched_hook(Some(hook));
    let seed: u64 = args[0].parse().expect("seed");
    let si: usize = args[1].parse().expect("scenario");
    let prefix: Vec<usize> = args[2..].iter().map(|a| a.parse().expect("choice")).collect();
    let sc = cold_scenarios(seed);
    let r = run_schedule(&prefix, &sc[si].bodies);
    println!("COLD {}", serde_json::to_string(&r).unwrap());
    std::process::exit(0)
}

#[derive(Clone, Debug, Serialize, Deserialize)]
struct ColdCase {
    scenario: usize,
    bound: usize,
}

struct ColdStart {
    scen: Vec<Scenario>,
    bounds: Vec<usize>,
}

impl Part for ColdStart {
    type Case = ColdCase;
    fn name(&self) -> String {
        "E3i-cold-start-schedules".into()
    }
    fn rule(&self) -> String {
        "the preemption-bounded schedule exploration of E3b, but EVERY schedule is executed in its own freshly started process, so that the interleaved calls are the first library calls of the process (one-time initialisation, lazily built tables and self-checks are in their initial state); two threads each set up a context, use it and drop it; oracle: R1's results, and each thread's drop ledger shows wipes and no dirty drop".into()
    }
    fn bound(&self, _cfg: &Cfg) -> String {
        format!("{} scenarios (2 threads), preemption bounds {:?}, one process per schedule", self.scen.len(), self.bounds)
    }
    fn rerun_check(&self) -> bool {
        false
    }
    fn enumerate(&self, _cfg: &Cfg) -> Vec<ColdCase> {
        let mut v = vec![];
        for s in 0..self.scen.len() {
            for &b in &self.bounds {
                v.push(ColdCase { scenario: s, bound: b });
            }
        }
        v
    }
    fn run(&self, cfg: &Cfg, c: &ColdCase) -> CaseOut {
        let mut out = CaseOut::new();
        out.nontrivial = true;
        let sc = &self.scen[c.scenario];
        out.outcome = format!("{}/bound{}", sc.name.split(' ').next().unwrap_or(""), c.bound);
        let exe = match std::env::current_exe() {
            Ok(e) => e,
            Err(e) => {
                out.fail_machinery(format!("current_exe: {}", e));
                return out;
            }
        };
        let run_cold = |prefix: &[usize]| -> Result<Run, String> {
            let mut cmd = std::process::Command::new(&exe);
            cmd.arg("--cold").arg(cfg.seed.to_string()).arg(c.scenario.to_string());
            for p in prefix {
                cmd.arg(p.to_string());
            }
            let res = cmd.output().map_err(|e| format!("cannot start the child process: {}", e))?;
            let text = String::from_utf8_lossy(&res.stdout).to_string();
            match text.lines().find_map(|l| l.strip_prefix("COLD ")) {
                Some(j) => serde_json::from_str(j).map_err(|e| format!("bad child output: {}", e)),
                None => Err(format!("the fresh process running schedule {:?} ended without a result (status {:?})", prefix, res.status.code())),
            }
        };
        let mut stack: Vec<Vec<usize>> = vec![vec![]];
        let mut n = 0u64;
        while let Some(prefix) = stack.pop() {
            let r = match run_cold(&prefix) {
                Ok(r) => r,
                Err(e) => {
                    out.fail(format!("{}: {}", sc.name, e));
                    break;
                }
            };
            n += 1;
            out.transitions += sc.bodies.len() as u64;
            if r.diverged {
                out.fail(format!("{}: replay divergence in a fresh process for prefix {:?}", sc.name, prefix));
                break;
            }
            if r.trace.is_empty() {
                out.fail_machinery(format!("{}: no scheduling point fired in the child", sc.name));
                break;
            }
            let mut cost = 0usize;
            let mut costs = vec![];
            for i in 0..r.choices.len() {
                costs.push(cost);
                if r.choices[i] != 0 && r.running_enabled[i] {
                    cost += 1;
                }
            }
            if r.outs != sc.expect {
                let which: Vec<usize> = (0..r.outs.len()).filter(|i| r.outs[*i] != sc.expect[*i]).collect();
                let show = |b: &[u8]| -> String {
                    match b.iter().position(|x| *x == b'|') {
                        Some(p) => format!("{}{}", obs::hx(&b[..p.min(12)]), String::from_utf8_lossy(&b[p..])),
                        None => obs::hx(&b[..b.len().min(24)]),
                    }
                };
                out.fail(format!(
                    "{}: schedule {:?} ({} preemptions) as the FIRST calls of a fresh process: thread(s) {:?} differ from sequential execution: got {} want {}",
                    sc.name, r.choices, cost, which, show(&r.outs[which[0]]), show(&sc.expect[which[0]])
                ));
                if out.mismatches.len() >= 3 {
                    break;
                }
            }
            for i in prefix.len()..r.choices.len() {
                for alt in 1..r.enabled_n[i] {
                    let cst = costs[i] + if r.running_enabled[i] { 1 } else { 0 };
                    if cst > c.bound {
                        continue;
                    }
                    let mut p = r.choices[..i].to_vec();
                    p.push(alt);
                    stack.push(p);
                }
            }
        }
        out.states = n;
        out
    }
}

#[derive(Clone, Debug, Serialize, Deserialize)]
struct SchedCase {
    scenario: usize,
    bound: usize,
    /// replay mode: run exactly this choice sequence
    replay: Option<Vec<usize>>,
}

struct E3b {
    scen: Vec<Scenario>,
    bounds: Vec<usize>,
    stats: Mutex<Vec<serde_json::Value>>,
    /// None = the C18 scenarios; Some(name) = another scenario family under its own part name
    label: Option<&'static str>,
}

impl Part for E3b {
    type Case = SchedCase;
    fn name(&self) -> String {
        self.label.unwrap_or("E3b-preemption-bounded-schedules").into()
    }
    fn rule(&self) -> String {
        "real OS threads run library code under a cooperative baton scheduler; the cfg(hpke_verif) scheduling points inside the library (KDF, AEAD, KEM, setup steps) and thread exit are the decision points; iterative context bounding: all schedules with at most B preemptions for B = 0, 1, 2 (a run replays a prefix of choices then keeps the running thread going; every later point whose preemption cost stays within the bound is branched); before each schedule a sequential prelude session (alternating) perturbs any process-wide state; oracle: every thread's outputs equal R1's sequential results; replaying a recorded choice sequence must reproduce trace and outputs exactly (checked on a sample), a divergence while replaying a prefix is a machinery error; a case = one scenario at one bound; states = schedules".into()
    }
    fn bound(&self, _cfg: &Cfg) -> String {
        format!("{} scenarios (2-3 threads), preemption bounds {:?}", self.scen.len(), self.bounds)
    }
    fn rerun_check(&self) -> bool {
        false
    }
    fn enumerate(&self, _cfg: &Cfg) -> Vec<SchedCase> {
        let mut v = vec![];
        for s in 0..self.scen.len() {
            for &b in &self.bounds {
                // the deepest bound only for the smaller scenarios (schedules grow as points^bound)
                // bound 3 for every two-thread scenario; the three-thread one stops at 2
                let small = self.scen[s].bodies.len() <= 2;
                if b >= 3 && !small {
                    continue;
                }
                v.push(SchedCase { scenario: s, bound: b, replay: None });
            }
        }
        v
    }
    fn run(&self, _cfg: &Cfg, c: &SchedCase) -> CaseOut {
        let mut out = CaseOut::new();
        out.nontrivial = true;
        let sc = &self.scen[c.scenario];
        out.outcome = format!("{}/bound{}", sc.name.split(' ').next().unwrap_or(""), c.bound);
        let mut stack: Vec<Vec<usize>> = vec![c.replay.clone().unwrap_or_default()];
        let single = c.replay.is_some();
        let mut n = 0u64;
        let mut max_points = 0usize;
        let mut max_preempt = 0usize;
        let mut outcomes: std::collections::BTreeSet<Vec<Vec<u8>>> = Default::default();
        let mut replay_checks = 0u64;
        let t0 = Instant::now();
        while let Some(prefix) = stack.pop() {
            if !sc.prelude.is_empty() {
                let p = &sc.prelude[(n as usize) % sc.prelude.len()];
                let _ = p(); // scheduler inactive, main thread has no TID: hooks return at once
            }
            let r = run_schedule(&prefix, &sc.bodies);
            n += 1;
            out.transitions += sc.bodies.len() as u64;
            if r.diverged {
                out.fail(format!("{}: replay divergence (choice out of range while replaying prefix {:?}) - the set of scheduling points changed between two runs of the same prefix: behaviour depends on earlier calls (hidden process-wide state), or on nondeterminism the harness does not own", sc.name, prefix));
                break;
            }
            if r.trace.is_empty() {
                out.fail_machinery(format!("{}: no scheduling point fired - the hooks are compiled out or not reached", sc.name));
                break;
            }
            max_points = max_points.max(r.choices.len());
            outcomes.insert(r.outs.clone());
            // preemptions before each index
            let mut cost = 0usize;
            let mut costs = vec![];
            for i in 0..r.choices.len() {
                costs.push(cost);
                if r.choices[i] != 0 && r.running_enabled[i] {
                    cost += 1;
                }
            }
            max_preempt = max_preempt.max(cost);
            if r.outs != sc.expect {
                let which: Vec<usize> = (0..r.outs.len()).filter(|i| r.outs[*i] != sc.expect[*i]).collect();
                out.failk(
                    "",
                    format!(
                        "{}: schedule {:?} ({} preemptions): thread(s) {:?} produced results that differ from sequential execution (R1): got {} want {}",
                        sc.name,
                        r.choices,
                        cost,
                        which,
                        obs::hx(&r.outs[which[0]]),
                        obs::hx(&sc.expect[which[0]])
                    ),
                );
                out.notes.push(format!("REPLAY {}", serde_json::to_string(&SchedCase { scenario: c.scenario, bound: c.bound, replay: Some(r.choices.clone()) }).unwrap()));
                if out.mismatches.len() >= 3 {
                    break;
                }
            }
            // the same choice sequence must reproduce the same observations
            if n <= 20 || n % 200 == 0 {
                let r2 = run_schedule(&r.choices, &sc.bodies);
                replay_checks += 1;
                if r2.trace != r.trace || r2.outs != r.outs || r2.choices != r.choices {
                    out.fail(format!("{}: replaying schedule {:?} gave a different trace or different outputs: the library's behaviour depends on something besides the schedule and the inputs - hidden process-wide state (the subject of C18), or nondeterminism the harness does not own", sc.name, r.choices));
                    break;
                }
            }
            if single {
                break;
            }
            for i in prefix.len()..r.choices.len() {
                for alt in 1..r.enabled_n[i] {
                    let cst = costs[i] + if r.running_enabled[i] { 1 } else { 0 };
                    if cst > c.bound {
                        continue;
                    }
                    let mut p = r.choices[..i].to_vec();
                    p.push(alt);
                    stack.push(p);
                }
            }
        }
        out.states = n;
        self.stats.lock().unwrap().push(serde_json::json!({
            "scenario": sc.name, "threads": sc.bodies.len(), "preemption_bound": c.bound, "schedules": n, "max_decision_points": max_points,
            "max_preemptions_seen": max_preempt, "distinct_outcome_vectors": outcomes.len(), "replay_determinism_checks": replay_checks,
            "wall_s": (t0.elapsed().as_secs_f64() * 100.0).round() / 100.0,
        }));
        out
    }
    fn extra(&self, _cfg: &Cfg) -> (serde_json::Map<String, serde_json::Value>, Vec<String>) {
        let mut m = serde_json::Map::new();
        m.insert("schedule_exploration".into(), serde_json::Value::Array(self.stats.lock().unwrap().clone()));
        (m, vec![])
    }
}

// ------------------------------------------------------------------------------------------------
// E3d (supporting, SAMPLING - not exhaustive): free-running threads that share key OBJECTS
// ------------------------------------------------------------------------------------------------

#[derive(Clone, Debug, Serialize, Deserialize)]
struct StressCase {
    kem: Kem,
    rounds: u32,
    threads: u32,
}

struct SharedObjects;

fn stress_kem<A: AeadT, D: KdfT, K: KemT>(out: &mut CaseOut, suite: SuiteId, c: &StressCase, seed: u64)
where
    K::PrivateKey: Send + Sync,
    K::PublicKey: Send + Sync,
    K::EncappedKey: Send + Sync,
{
    for round in 0..c.rounds {
        let fx = fix(suite, Mode::Auth, 40 + (round % 7) as u64, seed);
        // ONE object of each kind, freshly deserialized, shared by reference between all threads
        let sk = match K::PrivateKey::from_bytes(&fx.k.sk_r) {
            Ok(x) => x,
            Err(e) => {
                out.fail(format!("from_bytes: {:?}", e));
                return;
            }
        };
        let sk2 = sk.clone();
        let pk_r = K::PublicKey::from_bytes(&fx.k.pk_r).unwrap();
        let enc = K::EncappedKey::from_bytes(&fx.enc).unwrap();
        let mr = mode_r::<K>(&fx.m).unwrap();
        let ms = mode_s::<K>(&fx.m).unwrap();
        let barrier = std::sync::Barrier::new(c.threads as usize);
        let results: Vec<Vec<u8>> = std::thread::scope(|sc| {
            let hs: Vec<_> = (0..c.threads)
                .map(|t| {
                    let (sk, sk2, pk_r, enc, mr, ms, barrier, fx) = (&sk, &sk2, &pk_r, &enc, &mr, &ms, &barrier, &fx);
                    sc.spawn(move || {
                        barrier.wait();
                        let r = std::panic::catch_unwind(std::panic::AssertUnwindSafe(|| {
                            let mut o = vec![0u8; 40];
                            if t % 3 != 2 {
                                // receivers share ONE private key object (every second round: one clone of it, made
                                // before any use), the encapsulated key and the mode
                                let key = if round % 2 == 0 { sk } else { sk2 };
                                match hpke::setup_receiver::<A, D, K>(mr, key, enc, &fx.info) {
                                    Ok(ctx) => {
                                        ctx.export(b"e3", &mut o).unwrap();
                                        o
                                    }
                                    Err(e) => format!("!{:?}", e).into_bytes(),
                                }
                            } else {
                                // senders share the recipient public key object and the mode (with the identity key pair)
                                let mut rng = ScriptRng::new(&fx.k.ikm_e);
                                match hpke::setup_sender::<A, D, K, _>(ms, pk_r, &fx.info, &mut rng) {
                                    Ok((_, ctx)) => {
                                        ctx.export(b"e3", &mut o).unwrap();
                                        o
                                    }
                                    Err(e) => format!("!{:?}", e).into_bytes(),
                                }
                            }
                        }));
                        r.unwrap_or_else(|_| b"!panicked".to_vec())
                    })
                })
                .collect();
            hs.into_iter().map(|h| h.join().unwrap_or_else(|_| b"!thread died".to_vec())).collect()
        });
        // second kind of round: every thread decapsulates with its OWN recipient key (same KEM) at the same time -
        // a process-wide cache keyed per KEM would hand one thread another thread's value
        if round % 2 == 1 {
            let fxs: Vec<Arc<Fix>> = (0..c.threads as u64).map(|t| fix(suite, Mode::Base, 60 + t + 8 * (round as u64 % 5), seed)).collect();
            let barrier = std::sync::Barrier::new(c.threads as usize);
            let res: Vec<Vec<u8>> = std::thread::scope(|sc| {
                let hs: Vec<_> = fxs
                    .iter()
                    .map(|fx| {
                        let barrier = &barrier;
                        sc.spawn(move || {
                            let sk = K::PrivateKey::from_bytes(&fx.k.sk_r).unwrap();
                            let enc = K::EncappedKey::from_bytes(&fx.enc).unwrap();
                            let mr = mode_r::<K>(&fx.m).unwrap();
                            barrier.wait();
                            let r = std::panic::catch_unwind(std::panic::AssertUnwindSafe(|| {
                                let mut o = vec![0u8; 40];
                                match hpke::setup_receiver::<A, D, K>(&mr, &sk, &enc, &fx.info) {
                                    Ok(ctx) => {
                                        ctx.export(b"e3", &mut o).unwrap();
                                        o
                                    }
                                    Err(e) => format!("!{:?}", e).into_bytes(),
                                }
                            }));
                            r.unwrap_or_else(|_| b"!panicked".to_vec())
                        })
                    })
                    .collect();
                hs.into_iter().map(|h| h.join().unwrap_or_else(|_| b"!thread died".to_vec())).collect()
            });
            for (t, r) in res.iter().enumerate() {
                out.transitions += 1;
                if *r != fxs[t].export {
                    out.fail(format!("{}: round {}: thread {} (own recipient key, {} other receivers of the same KEM running) got {} instead of the sequential result", suite.name(), round, t, c.threads - 1, if r.first() == Some(&b'!') { String::from_utf8_lossy(r).to_string() } else { obs::hx(r) }));
                    return;
                }
            }
        }
        for (t, r) in results.iter().enumerate() {
            out.transitions += 1;
            if *r != fx.export {
                out.fail(format!(
                    "{}: round {}: thread {} sharing a key object with {} other threads got {} instead of the sequential result",
                    suite.name(),
                    round,
                    t,
                    c.threads - 1,
                    if r.first() == Some(&b'!') { String::from_utf8_lossy(r).to_string() } else { obs::hx(r) }
                ));
                return;
            }
        }
        out.states += 1;
    }
}

/// every thread hammers setup_receiver + export on its OWN session (distinct recipient keys, same KEM) in a tight
/// loop, without any barrier between iterations
fn hammer_kem<A: AeadT, D: KdfT, K: KemT>(out: &mut CaseOut, suite: SuiteId, threads: u32, iters: u32, seed: u64)
where
    K::PrivateKey: Send + Sync,
    K::EncappedKey: Send + Sync,
{
    let fxs: Vec<Arc<Fix>> = (0..threads as u64).map(|t| fix(suite, Mode::Base, 80 + t, seed)).collect();
    let stop = std::sync::atomic::AtomicBool::new(false);
    let barrier = std::sync::Barrier::new(threads as usize);
    let bad: Vec<Option<String>> = std::thread::scope(|sc| {
        let hs: Vec<_> = fxs
            .iter()
            .enumerate()
            .map(|(t, fx)| {
                let (stop, barrier) = (&stop, &barrier);
                sc.spawn(move || {
                    let sk = K::PrivateKey::from_bytes(&fx.k.sk_r).unwrap();
                    let enc = K::EncappedKey::from_bytes(&fx.enc).unwrap();
                    let mr = mode_r::<K>(&fx.m).unwrap();
                    barrier.wait();
                    for i in 0..iters {
                        if stop.load(std::sync::atomic::Ordering::Relaxed) {
                            break;
                        }
                        let r = std::panic::catch_unwind(std::panic::AssertUnwindSafe(|| {
                            let mut o = vec![0u8; 40];
                            match hpke::setup_receiver::<A, D, K>(&mr, &sk, &enc, &fx.info) {
                                Ok(ctx) => {
                                    ctx.export(b"e3", &mut o).unwrap();
                                    o
                                }
                                Err(e) => format!("!{:?}", e).into_bytes(),
                            }
                        }))
                        .unwrap_or_else(|_| b"!panicked".to_vec());
                        if r != fx.export {
                            stop.store(true, std::sync::atomic::Ordering::Relaxed);
                            return Some(format!("thread {} iteration {}: {}", t, i, if r.first() == Some(&b'!') { String::from_utf8_lossy(&r).to_string() } else { obs::hx(&r) }));
                        }
                    }
                    None
                })
            })
            .collect();
        hs.into_iter().map(|h| h.join().unwrap_or(Some("thread died".into()))).collect()
    });
    out.transitions += threads as u64 * iters as u64;
    if let Some(b) = bad.into_iter().flatten().next() {
        out.fail(format!("{}: {} receivers with distinct recipient keys hammering setup_receiver concurrently: {} differs from the sequential result", suite.name(), threads, b));
    }
}

impl Part for SharedObjects {
    type Case = StressCase;
    fn name(&self) -> String {
        "E3d-free-running-shared-objects-SAMPLED".into()
    }
    fn rule(&self) -> String {
        "SUPPORTING PASS, SAMPLING (not exhaustive, decides nothing on its own): real threads released by a barrier call setup_receiver / setup_sender on ONE freshly deserialized private key / public key / encapsulated key / mode object shared by reference, many rounds; a result that differs from R1 is a violation, silence proves nothing. It exists because the controlled scheduler can only preempt at scheduling points, and state hidden inside a key object between two points (e.g. a lazily filled cache) has none".into()
    }
    fn bound(&self, _cfg: &Cfg) -> String {
        "6 threads (4 receivers on one key object, 2 senders on one public key object) x rounds per KEM (X25519, P-256, P-384, P-521); schedules are whatever the OS produces".into()
    }
    fn exhaustive(&self) -> bool {
        false
    }
    fn supporting(&self) -> bool {
        true
    }
    fn rerun_check(&self) -> bool {
        false
    }
    fn enumerate(&self, cfg: &Cfg) -> Vec<StressCase> {
        let t = cfg.tier.thorough();
        vec![
            StressCase { kem: Kem::X25519, rounds: if t { 2000 } else { 300 }, threads: 6 },
            StressCase { kem: Kem::P256, rounds: if t { 1500 } else { 200 }, threads: 6 },
            StressCase { kem: Kem::P384, rounds: if t { 300 } else { 40 }, threads: 6 },
            StressCase { kem: Kem::P521, rounds: if t { 200 } else { 30 }, threads: 6 },
        ]
    }
    fn run(&self, cfg: &Cfg, c: &StressCase) -> CaseOut {
        use hpke::kdf::HkdfSha384;
        use hpke::kem::{DhP384HkdfSha384, DhP521HkdfSha512};
        let mut out = CaseOut::new();
        out.nontrivial = true;
        out.outcome = format!("stress/{}", c.kem.name());
        let t = cfg.tier.thorough();
        match c.kem {
            Kem::X25519 => hammer_kem::<ChaCha20Poly1305, HkdfSha256, X25519HkdfSha256>(&mut out, SuiteId { kem: c.kem, kdf: Kdf::Sha256, aead: Aead::ChaCha20Poly1305 }, 8, if t { 120_000 } else { 20_000 }, cfg.seed),
            Kem::P256 => hammer_kem::<AesGcm128, HkdfSha512, DhP256HkdfSha256>(&mut out, SuiteId { kem: c.kem, kdf: Kdf::Sha512, aead: Aead::Aes128Gcm }, 8, if t { 30_000 } else { 5_000 }, cfg.seed),
            _ => {}
        }
        match c.kem {
            Kem::X25519 => stress_kem::<ChaCha20Poly1305, HkdfSha256, X25519HkdfSha256>(&mut out, SuiteId { kem: c.kem, kdf: Kdf::Sha256, aead: Aead::ChaCha20Poly1305 }, c, cfg.seed),
            Kem::P256 => stress_kem::<AesGcm128, HkdfSha512, DhP256HkdfSha256>(&mut out, SuiteId { kem: c.kem, kdf: Kdf::Sha512, aead: Aead::Aes128Gcm }, c, cfg.seed),
            Kem::P384 => stress_kem::<AesGcm128, HkdfSha384, DhP384HkdfSha384>(&mut out, SuiteId { kem: c.kem, kdf: Kdf::Sha384, aead: Aead::Aes128Gcm }, c, cfg.seed),
            Kem::P521 => stress_kem::<AesGcm256, HkdfSha256, DhP521HkdfSha512>(&mut out, SuiteId { kem: c.kem, kdf: Kdf::Sha256, aead: Aead::Aes256Gcm }, c, cfg.seed),
        }
        out
    }
}

// ------------------------------------------------------------------------------------------------
// main
// ------------------------------------------------------------------------------------------------


// ------------------------------------------------------------------------------------------------
// E3f: first calls. Every short sequence of operations is run in a FRESH process, so that the first
// library call of the process is each operation in turn (lazily built process-wide state shows here:
// everything else in this harness runs after thousands of earlier calls)
// ------------------------------------------------------------------------------------------------

const FC_SUITES: [SuiteId; 6] = [
    SuiteId { kem: Kem::X25519, kdf: Kdf::Sha256, aead: Aead::ChaCha20Poly1305 },
    SuiteId { kem: Kem::X25519, kdf: Kdf::Sha512, aead: Aead::Aes256Gcm },
    SuiteId { kem: Kem::P256, kdf: Kdf::Sha256, aead: Aead::Aes128Gcm },
    SuiteId { kem: Kem::P256, kdf: Kdf::Sha256, aead: Aead::ExportOnly },
    SuiteId { kem: Kem::P384, kdf: Kdf::Sha384, aead: Aead::Aes256Gcm },
    SuiteId { kem: Kem::P521, kdf: Kdf::Sha512, aead: Aead::ChaCha20Poly1305 },
];
const FC_KINDS: [&str; 14] = [
    "derive_keypair", "gen_keypair", "sk_to_pk", "setup_sender(Base)+seal+export", "setup_receiver(Base)+open+export", "setup_sender(AuthPsk)+seal+export",
    "setup_receiver(AuthPsk)+open+export", "single_shot_seal(Psk)", "single_shot_open(Auth)", "decap",
    "FAILING setup_receiver(Auth: bad sender key / tampered single-shot open)", "FAILING setup_sender(bad recipient key) / key deserialization", "FAILING open (tampered), then the genuine message",
    "setup_sender(Base)+export of the maximum length 255*Nh, then one byte more",
];

fn fc_name(o: usize) -> String {
    format!("{} on {}", FC_KINDS[o % FC_KINDS.len()], FC_SUITES[o / FC_KINDS.len()].name())
}

/// performs operation `o` on the real library and compares everything it returns with R1
fn fc_run(o: usize, seed: u64) -> Result<(), String> {
    use hpke_mc::props::r1_setup_r;
    use hpke_mc::suites::suite_ops;
    let suite = FC_SUITES[o / FC_KINDS.len()];
    let kind = o % FC_KINDS.len();
    let tag = 31_000 + (o / FC_KINDS.len()) as u64;
    let k = keys(suite.kem, tag, seed);
    let info = bytes(Fill::Mix, 13, tag, seed);
    let psk = bytes(Fill::Mix, 32, tag + 1, seed);
    let psk_id = bytes(Fill::Mix, 7, tag + 2, seed);
    let ops = suite_ops(suite);
    let kem = ops.kem();
    let pt = bytes(Fill::Mix, 21, tag + 3, seed);
    let aad = bytes(Fill::Mix, 5, tag + 4, seed);
    let can_seal = suite.aead.can_seal();
    let cmp = |what: &str, got: Obs<Vec<u8>>, want: &[u8]| -> Result<(), String> {
        match got {
            Obs::Ok(v) if v == want => Ok(()),
            o => Err(format!("{}: got {} want {}", what, match &o { Obs::Ok(v) => obs::hx(v), x => x.class() }, obs::hx(want))),
        }
    };
    match kind {
        0 | 1 => {
            let ikm = bytes(Fill::Mix, suite.kem.nsk(), tag + 5, seed);
            let (sk, pk, _) = suite.kem.derive_keypair(&ikm);
            let got = if kind == 0 { kem.derive_keypair(&ikm) } else { kem.gen_keypair(&mut ScriptRng::new(&ikm)) };
            cmp("key pair (sk || pk)", got.map(|(a, b)| [a, b].concat()), &[sk, pk].concat())
        }
        2 => cmp("public key of skR", kem.sk_to_pk(&k.sk_r), &k.pk_r),
        3 | 5 | 4 | 6 => {
            let mode = if kind <= 4 { Mode::Base } else { Mode::AuthPsk };
            let m = mode_spec(mode, &k, &psk, &psk_id);
            let (enc, mut rs) = r1_setup_s(suite, &m, &k.pk_r, &info, &k.ikm_e).ok_or("R1 setup failed")?;
            let ct = if can_seal { rs.seal(&aad, &pt).map_err(|_| "R1 seal failed")? } else { vec![] };
            let exp = rs.export(b"first", 33).map_err(|_| "R1 export failed")?;
            if kind == 3 || kind == 5 {
                match ops.setup_sender(&m, &k.pk_r, &info, &mut ScriptRng::new(&k.ikm_e)) {
                    Obs::Ok((e, mut s)) => {
                        cmp("enc", Obs::Ok(e), &enc)?;
                        if can_seal {
                            cmp("first ciphertext", s.seal(&pt, &aad), &ct)?;
                        }
                        cmp("sender export", s.export(b"first", 33), &exp)
                    }
                    o => Err(format!("setup_sender: {}", o.map(|_| ()).class())),
                }
            } else {
                let _ = r1_setup_r(suite, &m, &enc, &k.sk_r, &info).ok_or("R1 receiver setup failed")?;
                match ops.setup_receiver(&m, &k.sk_r, &enc, &info) {
                    Obs::Ok(mut r) => {
                        if can_seal {
                            cmp("first plaintext", r.open(&ct, &aad), &pt)?;
                        }
                        cmp("receiver export", r.export(b"first", 33), &exp)
                    }
                    o => Err(format!("setup_receiver: {}", o.map(|_| ()).class())),
                }
            }
        }
        7 | 8 => {
            if !can_seal {
                return Ok(());
            }
            let mode = if kind == 7 { Mode::Psk } else { Mode::Auth };
            let m = mode_spec(mode, &k, &psk, &psk_id);
            let (enc, mut rs) = r1_setup_s(suite, &m, &k.pk_r, &info, &k.ikm_e).ok_or("R1 setup failed")?;
            let ct = rs.seal(&aad, &pt).map_err(|_| "R1 seal failed")?;
            if kind == 7 {
                cmp("enc || ciphertext", ops.single_shot_seal(&m, &k.pk_r, &info, &pt, &aad, &mut ScriptRng::new(&k.ikm_e)).map(|(a, b)| [a, b].concat()), &[enc, ct].concat())
            } else {
                cmp("plaintext", ops.single_shot_open(&m, &k.sk_r, &enc, &info, &ct, &aad), &pt)
            }
        }
        9 => {
            let (sk_e, _, _) = suite.kem.derive_keypair(&k.ikm_e);
            let (ss, enc) = suite.kem.encap(&k.pk_r, None, &sk_e).ok_or("R1 encap failed")?;
            cmp("shared secret", kem.decap(&k.sk_r, None, &enc), &ss)
        }
        13 => {
            let m = mode_spec(Mode::Base, &k, b"", b"");
            let (enc, rs) = r1_setup_s(suite, &m, &k.pk_r, &info, &k.ikm_e).ok_or("R1 setup failed")?;
            let max = 255 * suite.kdf.nh();
            match ops.setup_sender(&m, &k.pk_r, &info, &mut ScriptRng::new(&k.ikm_e)) {
                Obs::Ok((e, s)) => {
                    cmp("enc", Obs::Ok(e), &enc)?;
                    cmp("export of 255*Nh bytes", s.export(b"max", max), &rs.export(b"max", max).map_err(|_| "R1 export failed")?)?;
                    match s.export(b"max", max + 1) {
                        Obs::Err(hpke::HpkeError::KdfOutputTooLong) => Ok(()),
                        o => Err(format!("export of 255*Nh+1 bytes: {} want Err(KdfOutputTooLong)", o.map(|_| ()).class())),
                    }
                }
                o => Err(format!("setup_sender: {}", o.map(|_| ()).class())),
            }
        }
        // operations that must FAIL - an error path may leave something behind for the next call
        10 => {
            let m = mode_spec(Mode::Auth, &k, b"", b"");
            let (enc, mut rs) = r1_setup_s(suite, &m, &k.pk_r, &info, &k.ikm_e).ok_or("R1 setup failed")?;
            if suite.kem == Kem::X25519 {
                let m_bad = ModeSpec { pk_s: vec![0u8; 32], ..m.clone() };
                match ops.setup_receiver(&m_bad, &k.sk_r, &enc, &info) {
                    Obs::Err(hpke::HpkeError::DecapError) => Ok(()),
                    o => Err(format!("setup_receiver(Auth, all-zero sender key): {} want Err(DecapError)", o.map(|_| ()).class())),
                }
            } else if can_seal {
                let mut ct = rs.seal(&aad, &pt).map_err(|_| "R1 seal failed")?;
                ct[0] ^= 1;
                match ops.single_shot_open(&m, &k.sk_r, &enc, &info, &ct, &aad) {
                    Obs::Err(hpke::HpkeError::OpenError) => Ok(()),
                    o => Err(format!("single_shot_open(tampered): {} want Err(OpenError)", o.map(|_| ()).class())),
                }
            } else {
                Ok(())
            }
        }
        11 => {
            if suite.kem == Kem::X25519 {
                let m = mode_spec(Mode::Base, &k, b"", b"");
                match ops.setup_sender(&m, &[0u8; 32], &info, &mut ScriptRng::new(&k.ikm_e)) {
                    Obs::Err(hpke::HpkeError::EncapError) => Ok(()),
                    o => Err(format!("setup_sender(all-zero recipient key): {} want Err(EncapError)", o.map(|_| ()).class())),
                }
            } else {
                let mut off = k.pk_r.clone();
                let l = off.len();
                off[l - 1] ^= 1;
                match kem.reserialize(hpke_mc::suites::KeyKind::Public, &off) {
                    Obs::Err(hpke::HpkeError::ValidationError) | Obs::Pre(hpke::HpkeError::ValidationError) => Ok(()),
                    o => Err(format!("PublicKey::from_bytes(off-curve point): {} want Err(ValidationError)", o.map(|_| ()).class())),
                }
            }
        }
        _ => {
            if !can_seal {
                return Ok(());
            }
            let m = mode_spec(Mode::Base, &k, b"", b"");
            let (enc, mut rs) = r1_setup_s(suite, &m, &k.pk_r, &info, &k.ikm_e).ok_or("R1 setup failed")?;
            let ct = rs.seal(&aad, &pt).map_err(|_| "R1 seal failed")?;
            match ops.setup_receiver(&m, &k.sk_r, &enc, &info) {
                Obs::Ok(mut r) => {
                    let mut bad = ct.clone();
                    let l = bad.len();
                    bad[l - 1] ^= 0x40;
                    if r.open(&bad, &aad) != Obs::Err(hpke::HpkeError::OpenError) {
                        return Err("open(tampered) did not fail with OpenError".into());
                    }
                    if r.open(&ct[..7], &aad) != Obs::Err(hpke::HpkeError::OpenError) {
                        return Err("open(7 bytes) did not fail with OpenError".into());
                    }
                    cmp("plaintext after two rejected deliveries", r.open(&ct, &aad), &pt)
                }
                o => Err(format!("setup_receiver: {}", o.map(|_| ()).class())),
            }
        }
    }
}

/// child process: `sched --firstcall <seed> <op> [<op> ...]`
fn fc_child(args: &[String]) -> ! {
    obs::install_panic_hook();
    let seed: u64 = args[0].parse().expect("seed");
    for (i, a) in args[1..].iter().enumerate() {
        let o: usize = a.parse().expect("op index");
        match fc_run(o, seed) {
            Ok(()) => println!("FC {} ok", i),
            Err(e) => println!("FC {} MISMATCH {}", i, e),
        }
    }
    std::process::exit(0)
}

#[derive(Clone, Debug, Serialize, Deserialize)]
struct FcCase {
    ops: Vec<usize>,
}

struct FirstCalls {
    len3_suites: usize,
}

impl Part for FirstCalls {
    type Case = FcCase;
    fn name(&self) -> String {
        "E3f-first-calls-in-fresh-processes".into()
    }
    fn rule(&self) -> String {
        "every sequence of 1 or 2 operations (thorough: also 3 over a sub-alphabet) from {derive_keypair, gen_keypair, sk_to_pk, setup_sender+seal+export (Base, AuthPsk), setup_receiver+open+export (Base, AuthPsk), single_shot_seal (Psk), single_shot_open (Auth), decap, and three operations that must FAIL: receiver setup with a bad sender key / tampered single-shot open, sender setup with a bad recipient key / off-curve key deserialization, rejected deliveries followed by the genuine one} x 6 suites (two per X25519 and P-256 so that suites sharing a KEM follow each other) is executed in its OWN freshly started process, so that each operation is once the very first library call of a process and once the successor of every other operation; all inputs come from R1 (no library call is needed to prepare them) and every output is compared with R1".into()
    }
    fn bound(&self, cfg: &Cfg) -> String {
        let n = FC_SUITES.len() * FC_KINDS.len();
        format!("{} operations: {} singles + {} ordered pairs{}", n, n, n * n, if cfg.tier.thorough() { format!(" + {} ordered triples over the first {} suites", (self.len3_suites * FC_KINDS.len()).pow(3), self.len3_suites) } else { String::new() })
    }
    fn rerun_check(&self) -> bool {
        false
    }
    fn enumerate(&self, cfg: &Cfg) -> Vec<FcCase> {
        let n = FC_SUITES.len() * FC_KINDS.len();
        let mut v: Vec<FcCase> = (0..n).map(|a| FcCase { ops: vec![a] }).collect();
        for a in 0..n {
            for b in 0..n {
                v.push(FcCase { ops: vec![a, b] });
            }
        }
        if cfg.tier.thorough() {
            let m = self.len3_suites * FC_KINDS.len();
            for a in 0..m {
                for b in 0..m {
                    for c in 0..m {
                        v.push(FcCase { ops: vec![a, b, c] });
                    }
                }
            }
        }
        v
    }
    fn run(&self, cfg: &Cfg, c: &FcCase) -> CaseOut {
        let mut out = CaseOut::new();
        out.nontrivial = true;
        out.outcome = format!("len{}", c.ops.len());
        let exe = match std::env::current_exe() {
            Ok(e) => e,
            Err(e) => {
                out.fail_machinery(format!("current_exe: {}", e));
                return out;
            }
        };
        let mut cmd = std::process::Command::new(exe);
        cmd.arg("--firstcall").arg(cfg.seed.to_string());
        for o in &c.ops {
            cmd.arg(o.to_string());
        }
        let res = match cmd.output() {
            Ok(r) => r,
            Err(e) => {
                out.fail_machinery(format!("cannot start the child process: {}", e));
                return out;
            }
        };
        let text = String::from_utf8_lossy(&res.stdout).to_string();
        let names: Vec<String> = c.ops.iter().map(|o| fc_name(*o)).collect();
        let mut seen = 0;
        for line in text.lines() {
            if let Some(rest) = line.strip_prefix("FC ") {
                seen += 1;
                out.transitions += 1;
                let mut it = rest.splitn(3, ' ');
                let i: usize = it.next().and_then(|x| x.parse().ok()).unwrap_or(0);
                if it.next() == Some("MISMATCH") {
                    let before = if i == 0 { "as the FIRST library call of a fresh process".to_string() } else { format!("in a fresh process after [{}]", names[..i].join("; ")) };
                    out.fail(format!("{} {}: {}", names[i], before, it.next().unwrap_or("")));
                }
            }
        }
        if seen != c.ops.len() {
            out.fail(format!("fresh process running [{}] ended after {} of {} operations (status {:?}): a library call took the process down", names.join("; "), seen, c.ops.len(), res.status.code()));
        }
        out
    }
}


// ------------------------------------------------------------------------------------------------
// E3g: long process histories. One fresh process performs more than 2^16 operations of one kind, spread
// round-robin over several contexts / suites, every result compared with R1: process-wide bookkeeping
// (a counter of calls, a cache that fills up) shows only after many calls ANYWHERE in the process
// ------------------------------------------------------------------------------------------------

const LR_KINDS: [&str; 7] = ["seal", "open", "export", "setup_sender", "setup_receiver", "derive_keypair", "single_shot_seal"];

fn lr_child(args: &[String]) -> ! {
    use hpke_mc::props::r1_setup_r;
    use hpke_mc::suites::suite_ops;
    obs::install_panic_hook();
    let seed: u64 = args[0].parse().expect("seed");
    let kind: usize = args[1].parse().expect("kind");
    let n: u64 = args[2].parse().expect("n");
    let suites = [FC_SUITES[0], FC_SUITES[2], FC_SUITES[1]];
    let fail = |i: u64, msg: String| -> ! {
        println!("LR MISMATCH operation #{} of the process: {}", i, msg);
        std::process::exit(0)
    };
    match kind {
        0 | 1 | 2 => {
            // three live sender/receiver pairs on different suites
            let mut ctxs = vec![];
            for (j, suite) in suites.iter().enumerate() {
                let k = keys(suite.kem, 32_000 + j as u64, seed);
                let m = mode_spec(Mode::Base, &k, b"", b"");
                let info = bytes(Fill::Mix, 4, 32_000 + j as u64, seed);
                let (enc, rs) = r1_setup_s(*suite, &m, &k.pk_r, &info, &k.ikm_e).expect("R1 setup");
                let _ = r1_setup_r(*suite, &m, &enc, &k.sk_r, &info).expect("R1 setup_r");
                let ops = suite_ops(*suite);
                let s = match ops.setup_sender(&m, &k.pk_r, &info, &mut ScriptRng::new(&k.ikm_e)) {
                    Obs::Ok(x) => x.1,
                    o => fail(0, format!("setup_sender: {}", o.map(|_| ()).class())),
                };
                let r = match ops.setup_receiver(&m, &k.sk_r, &enc, &info) {
                    Obs::Ok(x) => x,
                    o => fail(0, format!("setup_receiver: {}", o.map(|_| ()).class())),
                };
                ctxs.push((s, r, rs, 0u64));
            }
            for i in 0..n {
                let j = (i % 3) as usize;
                let (s, r, rs, pos) = &mut ctxs[j];
                let pt = [b'l', (i % 251) as u8, (i >> 8) as u8];
                let aad = (i as u32).to_le_bytes();
                match kind {
                    0 => {
                        let want = rs.seal_at(*pos as u128, &aad, &pt);
                        let got = if i % 2 == 0 {
                            s.seal(&pt, &aad)
                        } else {
                            let mut b = pt.to_vec();
                            s.seal_ip(&mut b, &aad).map(|t| [&b[..], &t[..]].concat())
                        };
                        if got != Obs::Ok(want) {
                            fail(i, format!("seal #{} of context {} ({}) differs from R1's ciphertext at sequence number {}: {}", pos, j, suites[j].name(), pos, got.class()));
                        }
                        *pos += 1;
                    }
                    1 => {
                        let ct = rs.seal_at(*pos as u128, &aad, &pt);
                        let got = r.open(&ct, &aad);
                        if got != Obs::Ok(pt.to_vec()) {
                            fail(i, format!("open #{} of context {} ({}) does not return the plaintext: {}", pos, j, suites[j].name(), got.class()));
                        }
                        *pos += 1;
                    }
                    _ => {
                        let ectx = (i as u32).to_be_bytes();
                        let want = rs.export(&ectx, 24).unwrap();
                        let got = if i % 2 == 0 { s.export(&ectx, 24) } else { r.export(&ectx, 24) };
                        if got != Obs::Ok(want) {
                            fail(i, format!("export #{} (context {}, {}) differs from R1: {}", i, j, suites[j].name(), got.class()));
                        }
                    }
                }
            }
        }
        _ => {
            // setups / key derivations with a few rotating inputs, expected values computed once by R1
            let suite = FC_SUITES[0];
            let ops = suite_ops(suite);
            let mut fx = vec![];
            for j in 0..4u64 {
                let k = keys(suite.kem, 33_000 + j, seed);
                let m = mode_spec(if j % 2 == 0 { Mode::Base } else { Mode::AuthPsk }, &k, b"0123456789abcdef0123456789abcdef", b"id");
                let info = bytes(Fill::Mix, 3 + j as usize, 33_000 + j, seed);
                let (enc, mut rs) = r1_setup_s(suite, &m, &k.pk_r, &info, &k.ikm_e).expect("R1 setup");
                let exp = rs.export(b"lr", 20).unwrap();
                let ct = rs.seal(b"a", b"single").unwrap();
                let ikm = bytes(Fill::Mix, 32, 33_100 + j, seed);
                let (dsk, dpk, _) = suite.kem.derive_keypair(&ikm);
                fx.push((k, m, info, enc, exp, ct, ikm, [dsk, dpk].concat()));
            }
            for i in 0..n {
                let (k, m, info, enc, exp, ct, ikm, dkp) = &fx[(i % 4) as usize];
                let ok = match kind {
                    3 => match ops.setup_sender(m, &k.pk_r, info, &mut ScriptRng::new(&k.ikm_e)) {
                        Obs::Ok((e, s)) => e == *enc && s.export(b"lr", 20) == Obs::Ok(exp.clone()),
                        _ => false,
                    },
                    4 => match ops.setup_receiver(m, &k.sk_r, enc, info) {
                        Obs::Ok(r) => r.export(b"lr", 20) == Obs::Ok(exp.clone()),
                        _ => false,
                    },
                    5 => ops.kem().derive_keypair(ikm).map(|(a, b)| [a, b].concat()) == Obs::Ok(dkp.clone()),
                    _ => ops.single_shot_seal(m, &k.pk_r, info, b"single", b"a", &mut ScriptRng::new(&k.ikm_e)) == Obs::Ok((enc.clone(), ct.clone())),
                };
                if !ok {
                    fail(i, format!("{} #{} (input set {}) differs from R1", LR_KINDS[kind], i, i % 4));
                }
            }
        }
    }
    println!("LR ok {}", n);
    std::process::exit(0)
}

#[derive(Clone, Debug, Serialize, Deserialize)]
struct LrCase {
    kind: usize,
    n: u64,
}

struct LongHistories;

impl Part for LongHistories {
    type Case = LrCase;
    fn name(&self) -> String {
        "E3g-long-process-histories".into()
    }
    fn rule(&self) -> String {
        "one fresh process per operation kind {seal, open, export, setup_sender, setup_receiver, derive_keypair, single_shot_seal} performs n > 2^16 operations of that kind (seal/open/export round-robin over three live contexts on three suites; the others over four rotating input sets), EVERY result compared with R1; n exceeds 2^16 so that a 16-bit process-wide call counter or a cache that fills up is exercised".into()
    }
    fn bound(&self, cfg: &Cfg) -> String {
        format!("{} kinds x n = {} (cheap kinds) / {} (setups)", LR_KINDS.len(), if cfg.tier.thorough() { (1u64 << 18) + 300 } else { (1u64 << 16) + 300 }, (1u64 << 16) + 300)
    }
    fn rerun_check(&self) -> bool {
        false
    }
    fn enumerate(&self, cfg: &Cfg) -> Vec<LrCase> {
        (0..LR_KINDS.len()).map(|kind| LrCase { kind, n: if cfg.tier.thorough() && kind < 3 { (1u64 << 18) + 300 } else { (1u64 << 16) + 300 } }).collect()
    }
    fn run(&self, cfg: &Cfg, c: &LrCase) -> CaseOut {
        let mut out = CaseOut::new();
        out.nontrivial = true;
        out.outcome = LR_KINDS[c.kind].into();
        let exe = match std::env::current_exe() {
            Ok(e) => e,
            Err(e) => {
                out.fail_machinery(format!("current_exe: {}", e));
                return out;
            }
        };
        let res = match std::process::Command::new(exe).arg("--longrun").arg(cfg.seed.to_string()).arg(c.kind.to_string()).arg(c.n.to_string()).output() {
            Ok(r) => r,
            Err(e) => {
                out.fail_machinery(format!("cannot start the child process: {}", e));
                return out;
            }
        };
        let text = String::from_utf8_lossy(&res.stdout).to_string();
        out.transitions += c.n;
        match text.lines().find(|l| l.starts_with("LR ")) {
            Some(l) if l.starts_with("LR ok") => {}
            Some(l) => out.fail(format!("a process doing nothing but {} {} operations: {}", c.n, LR_KINDS[c.kind], &l[3..])),
            None => out.fail(format!("the process doing {} {} operations ended without a result (status {:?}): a library call took it down", c.n, LR_KINDS[c.kind], res.status.code())),
        }
        out
    }
}


// ------------------------------------------------------------------------------------------------
// E3h: object reuse. Every other part deserializes fresh key objects for each call; here ONE set of
// key / encapsulated-key / mode objects lives through a whole sequence of operations, in every order
// ------------------------------------------------------------------------------------------------

const RU_OPS: [&str; 9] = [
    "setup_receiver(Base, enc1)", "setup_receiver(Base, enc2)", "setup_receiver(Auth(pkS), enc3)", "setup_sender(Base, pkR)", "setup_sender(Auth(skS, pkS), pkR)", "sk_to_pk(skR)",
    "decap(skR, enc1)", "serialize skR, pkR, pkS, enc1", "setup_receiver(Psk(bundle), enc4)",
];

fn reuse_case<A: AeadT, D: KdfT, K: KemT>(out: &mut CaseOut, suite: SuiteId, first: usize, depth: usize, seed: u64) {
    use hpke::{OpModeR, OpModeS, PskBundle};
    let k = keys(suite.kem, 34_000, seed);
    let k2 = keys(suite.kem, 34_001, seed);
    let info = bytes(Fill::Mix, 8, 34_000, seed);
    let psk = bytes(Fill::Mix, 32, 34_002, seed);
    let psk_id = bytes(Fill::Mix, 6, 34_003, seed);
    let m_base = mode_spec(Mode::Base, &k, b"", b"");
    let m_auth = mode_spec(Mode::Auth, &k, b"", b"");
    let m_psk = mode_spec(Mode::Psk, &k, &psk, &psk_id);
    // R1: everything each operation must return, independent of order
    let (enc1, c1) = r1_setup_s(suite, &m_base, &k.pk_r, &info, &k.ikm_e).expect("R1");
    let (enc2, c2) = r1_setup_s(suite, &m_base, &k.pk_r, &info, &k2.ikm_e).expect("R1");
    let (enc3, c3) = r1_setup_s(suite, &m_auth, &k.pk_r, &info, &k2.ikm_e).expect("R1");
    let (enc4, c4) = r1_setup_s(suite, &m_psk, &k.pk_r, &info, &k.ikm_e).expect("R1");
    let ex = |c: &r1::Ctx| c.export(b"reuse", 24).unwrap();
    let ss1 = suite.kem.decap(&enc1, &k.sk_r, None).expect("R1 decap");
    let want: Vec<Vec<u8>> = vec![
        ex(&c1), ex(&c2), ex(&c3), [enc1.clone(), ex(&c1)].concat(), [enc3.clone(), ex(&c3)].concat(), k.pk_r.clone(), ss1,
        [k.sk_r.clone(), k.pk_r.clone(), k.pk_s.clone(), enc1.clone()].concat(), ex(&c4),
    ];
    let n = RU_OPS.len();
    let mut stack: Vec<Vec<usize>> = vec![vec![first]];
    while let Some(path) = stack.pop() {
        // the objects of this history
        let objs = guard(|| {
            Ok((
                K::PrivateKey::from_bytes(&k.sk_r)?, K::PublicKey::from_bytes(&k.pk_r)?, K::PrivateKey::from_bytes(&k.sk_s)?, K::PublicKey::from_bytes(&k.pk_s)?,
                K::EncappedKey::from_bytes(&enc1)?, K::EncappedKey::from_bytes(&enc2)?, K::EncappedKey::from_bytes(&enc3)?, K::EncappedKey::from_bytes(&enc4)?,
            ))
        });
        let (sk_r, pk_r, sk_s, pk_s, e1, e2, e3, e4) = match objs {
            Obs::Ok(x) => x,
            o => {
                out.fail(format!("deserializing the fixture keys: {}", o.map(|_| ()).class()));
                return;
            }
        };
        let bundle = PskBundle::new(&psk, &psk_id).expect("bundle");
        let mode_r_base = OpModeR::<K>::Base;
        let mode_r_auth = OpModeR::<K>::Auth(pk_s.clone());
        let mode_r_psk = OpModeR::<K>::Psk(bundle);
        let mode_s_base = OpModeS::<K>::Base;
        let mode_s_auth = OpModeS::<K>::Auth((sk_s.clone(), pk_s.clone()));
        let export_r = |c: AeadCtxR<A, D, K>| {
            let mut o = vec![0u8; 24];
            c.export(b"reuse", &mut o).map(|_| o)
        };
        let mut last_got = Obs::Ok(vec![]);
        for &op in &path {
            last_got = guard(|| match op {
                0 => export_r(hpke::setup_receiver::<A, D, K>(&mode_r_base, &sk_r, &e1, &info)?),
                1 => export_r(hpke::setup_receiver::<A, D, K>(&mode_r_base, &sk_r, &e2, &info)?),
                2 => export_r(hpke::setup_receiver::<A, D, K>(&mode_r_auth, &sk_r, &e3, &info)?),
                3 | 4 => {
                    let (m, script) = if op == 3 { (&mode_s_base, &k.ikm_e) } else { (&mode_s_auth, &k2.ikm_e) };
                    let (enc, c) = hpke::setup_sender::<A, D, K, _>(m, &pk_r, &info, &mut ScriptRng::new(script))?;
                    let mut o = vec![0u8; 24];
                    c.export(b"reuse", &mut o)?;
                    Ok([enc.to_bytes().to_vec(), o].concat())
                }
                5 => Ok(K::sk_to_pk(&sk_r).to_bytes().to_vec()),
                6 => Ok(K::decap(&sk_r, None, &e1)?.0.to_vec()),
                7 => Ok([sk_r.to_bytes().to_vec(), pk_r.to_bytes().to_vec(), pk_s.to_bytes().to_vec(), e1.to_bytes().to_vec()].concat()),
                _ => export_r(hpke::setup_receiver::<A, D, K>(&mode_r_psk, &sk_r, &e4, &info)?),
            });
        }
        out.transitions += 1;
        out.states += 1;
        let last = *path.last().unwrap();
        if last_got != Obs::Ok(want[last].clone()) {
            let names: Vec<&str> = path.iter().map(|o| RU_OPS[*o]).collect();
            out.fail(format!("{}: operations [{}] on ONE set of key / mode objects: the last one returns {} instead of R1's value for it in isolation", suite.name(), names.join(" ; "), last_got.class()));
            if out.mismatches.len() > 5 {
                return;
            }
        }
        if path.len() < depth {
            for o in 0..n {
                let mut q = path.clone();
                q.push(o);
                stack.push(q);
            }
        }
    }
}

#[derive(Clone, Debug, Serialize, Deserialize)]
struct ReuseCase {
    suite: usize,
    first: usize,
    depth: usize,
}

struct ObjectReuse;

impl Part for ObjectReuse {
    type Case = ReuseCase;
    fn name(&self) -> String {
        "E3h-object-reuse-histories".into()
    }
    fn rule(&self) -> String {
        "ONE set of objects - recipient private and public key, sender identity pair, four encapsulated keys, the OpModeR / OpModeS / PskBundle values - is created once and then used by EVERY sequence of up to `depth` operations from {setup_receiver (Base with two different enc, Auth, Psk), setup_sender (Base, Auth), sk_to_pk, decap, serialization of all of them}; the last operation of every sequence must return R1's value for that operation in isolation (an object that remembers something from an earlier call, or is changed by being used, shows here)".into()
    }
    fn bound(&self, cfg: &Cfg) -> String {
        format!("all sequences of length <= {} over {} operations, 2 suites (X25519, P-256)", if cfg.tier.thorough() { 4 } else { 3 }, RU_OPS.len())
    }
    fn enumerate(&self, cfg: &Cfg) -> Vec<ReuseCase> {
        let mut v = vec![];
        for suite in 0..2 {
            for first in 0..RU_OPS.len() {
                v.push(ReuseCase { suite, first, depth: if cfg.tier.thorough() { 4 } else { 3 } });
            }
        }
        v
    }
    fn run(&self, cfg: &Cfg, c: &ReuseCase) -> CaseOut {
        let mut out = CaseOut::new();
        out.nontrivial = true;
        out.outcome = format!("suite{}", c.suite);
        if c.suite == 0 {
            reuse_case::<ChaCha20Poly1305, HkdfSha256, X25519HkdfSha256>(&mut out, ALPHA, c.first, c.depth, cfg.seed);
        } else {
            reuse_case::<AesGcm128, HkdfSha512, DhP256HkdfSha256>(&mut out, BETA, c.first, c.depth, cfg.seed);
        }
        out
    }
}


// ------------------------------------------------------------------------------------------------
// E3j: rotation histories. Several DIFFERENT sessions of one suite follow one another in every order:
// a small table of recent values (most-recently-used cache, memo with eviction) is only wrong after a
// particular pattern of hits, misses and evictions
// ------------------------------------------------------------------------------------------------

#[derive(Clone, Debug, Serialize, Deserialize)]
struct RotCase {
    suite: usize,
    receiver: bool,
    first: usize,
    depth: usize,
}

struct Rotation;

const ROT_LETTERS: usize = 5;

impl Part for Rotation {
    type Case = RotCase;
    fn name(&self) -> String {
        "E3j-session-rotation-histories".into()
    }
    fn rule(&self) -> String {
        "five DIFFERENT Auth sessions of one suite (five recipient key pairs, two sender identities) are set up one after the other in EVERY order of length <= depth (senders and receivers separately); each setup's encapsulated key and export are compared with R1: a table of recent values inside the library (a k-entry cache with eviction or reordering) must never hand one session another session's value".into()
    }
    fn bound(&self, cfg: &Cfg) -> String {
        format!("all sequences of length <= {} over {} sessions, 2 suites x 2 roles", if cfg.tier.thorough() { "7 (X25519) / 6 (P-256)" } else { "5" }, ROT_LETTERS)
    }
    fn enumerate(&self, cfg: &Cfg) -> Vec<RotCase> {
        let mut v = vec![];
        for suite in 0..2 {
            for receiver in [false, true] {
                for first in 0..ROT_LETTERS {
                    v.push(RotCase { suite, receiver, first, depth: if cfg.tier.thorough() { if suite == 0 { 7 } else { 6 } } else { 5 } });
                }
            }
        }
        v
    }
    fn run(&self, cfg: &Cfg, c: &RotCase) -> CaseOut {
        let mut out = CaseOut::new();
        out.nontrivial = true;
        out.outcome = format!("suite{}/{}", c.suite, if c.receiver { "receivers" } else { "senders" });
        let suite = if c.suite == 0 { ALPHA } else { BETA };
        let ops = hpke_mc::suites::suite_ops(suite);
        // session i: recipient i, sender identity i % 2 (so the same sender key meets several recipients)
        let ids = [keys(suite.kem, 35_100, cfg.seed), keys(suite.kem, 35_101, cfg.seed)];
        let mut sess = vec![];
        for i in 0..ROT_LETTERS {
            let mut k = keys(suite.kem, 35_000 + i as u64, cfg.seed);
            k.sk_s = ids[i % 2].sk_s.clone();
            k.pk_s = ids[i % 2].pk_s.clone();
            let m = mode_spec(Mode::Auth, &k, b"", b"");
            let info = bytes(Fill::Mix, 5, 35_000, cfg.seed);
            let (enc, ctx) = r1_setup_s(suite, &m, &k.pk_r, &info, &k.ikm_e).expect("R1 setup");
            let want = [enc.clone(), ctx.export(b"rot", 24).unwrap()].concat();
            sess.push((k, m, info, enc, want));
        }
        let mut stack: Vec<Vec<usize>> = vec![vec![c.first]];
        while let Some(path) = stack.pop() {
            let mut last = Obs::Ok(vec![]);
            for &i in &path {
                let (k, m, info, enc, _) = &sess[i];
                last = if c.receiver {
                    match ops.setup_receiver(m, &k.sk_r, enc, info) {
                        Obs::Ok(r) => r.export(b"rot", 24).map(|e| [enc.clone(), e].concat()),
                        o => o.map(|_| vec![]),
                    }
                } else {
                    match ops.setup_sender(m, &k.pk_r, info, &mut ScriptRng::new(&k.ikm_e)) {
                        Obs::Ok((e, s)) => s.export(b"rot", 24).map(|x| [e.clone(), x].concat()),
                        o => o.map(|_| vec![]),
                    }
                };
            }
            out.transitions += 1;
            out.states += 1;
            let li = *path.last().unwrap();
            if last != Obs::Ok(sess[li].4.clone()) {
                out.fail(format!("{} {} of sessions {:?} one after the other: the last one does not give R1's encapsulated key / export for session {} ({})", suite.name(), if c.receiver { "receiver setups" } else { "sender setups" }, path, li, last.class()));
                if out.mismatches.len() > 3 {
                    return out;
                }
            }
            if path.len() < c.depth {
                for l in 0..ROT_LETTERS {
                    let mut q = path.clone();
                    q.push(l);
                    stack.push(q);
                }
            }
        }
        out
    }
}

fn main() {
    let a: Vec<String> = std::env::args().collect();
    if a.len() > 3 && a[1] == "--cold" {
        cold_child(&a[2..]);
    }
    if a.len() > 4 && a[1] == "--longrun" {
        lr_child(&a[2..]);
    }
    if a.len() > 2 && a[1] == "--firstcall" {
        fc_child(&a[2..]);
    }
    let mut cfg = Cfg {
        prop: "C18".into(),
        tier: match std::env::var("VERIF_TIER").as_deref() {
            Ok("thorough") => Tier::Thorough,
            _ => Tier::Quick,
        },
        seed: std::env::var("VERIF_SEED").ok().and_then(|s| s.parse().ok()).unwrap_or(0),
        threads: std::thread::available_parallelism().map(|n| n.get()).unwrap_or(4),
        root: PathBuf::from("/verif"),
        replay: None,
        wall_cap_s: 3600,
        only_part: None,
    };
    let mut sendsync_types: Option<u64> = None;
    let mut emit_part: Option<PathBuf> = None;
    let mut i = 1;
    while i < a.len() {
        match a[i].as_str() {
            "--tier" => {
                cfg.tier = if a[i + 1] == "thorough" { Tier::Thorough } else { Tier::Quick };
                i += 1;
            }
            "--root" => {
                cfg.root = PathBuf::from(&a[i + 1]);
                i += 1;
            }
            "--replay" => {
                cfg.replay = Some(PathBuf::from(&a[i + 1]));
                i += 1;
            }
            "--part" => {
                cfg.only_part = Some(a[i + 1].clone());
                i += 1;
            }
            "--sendsync-types" => {
                sendsync_types = a[i + 1].parse().ok();
                i += 1;
            }
            "--emit-part" => {
                emit_part = Some(PathBuf::from(&a[i + 1]));
                i += 1;
            }
            "C18" => {}
            "C06" => cfg.prop = "C06".into(),
            "C07" => cfg.prop = "C07".into(),
            "C02" => cfg.prop = "C02".into(),
            "C16" => cfg.prop = "C16".into(),
            other => {
                eprintln!("unknown argument {}", other);
                std::process::exit(2);
            }
        }
        i += 1;
    }
    obs::install_panic_hook();
    if let Err(e) = r1::self_test() {
        eprintln!("MACHINERY-ERROR reference model self-test failed: {}", e);
        std::process::exit(2);
    }
    #[cfg(not(hpke_verif))]
    {
        eprintln!("MACHINERY-ERROR sched must be built with --cfg hpke_verif");
        std::process::exit(2);
    }
    #[cfg(hpke_verif)]
    hpke::verif::set_sched_hook(Some(hook));
    let t0 = Instant::now();
    let t = cfg.tier.thorough();
    if cfg.prop == "C16" {
        // C16's concurrent cold-start part: contexts set up and dropped by two threads as the first calls of a process
        let part = ColdStart { scen: cold_scenarios(cfg.seed), bounds: if t { vec![0, 1, 2] } else { vec![0, 1] } };
        if let Some(path) = &cfg.replay {
            let v: serde_json::Value = serde_json::from_str(&std::fs::read_to_string(path).expect("cannot read replay file")).expect("bad replay file");
            match replay_part(&part, &cfg, &v["case"]) {
                Ok(o) => {
                    println!("replay: {} comparisons, {} mismatches", o.transitions, o.mismatches.len());
                    for m in &o.mismatches {
                        println!("  MISMATCH {}", m.msg);
                    }
                    std::process::exit(if o.mismatches.is_empty() { 0 } else { 1 });
                }
                Err(e) => {
                    eprintln!("{}", e);
                    std::process::exit(2);
                }
            }
        }
        let r = run_part(&part, &cfg);
        eprintln!("  part {}: cases {} schedules (one process each) {} violating {} ({:.1}s)", r.name, r.run, r.states, r.violations.len(), r.wall_s);
        if !r.machinery_errors.is_empty() {
            for e in &r.machinery_errors {
                eprintln!("MACHINERY-ERROR {}", e);
            }
            std::process::exit(2);
        }
        let path = emit_part.expect("sched C16 needs --emit-part <file>");
        std::fs::write(&path, serde_json::to_string(&vec![r]).unwrap()).expect("cannot write part file");
        std::process::exit(0);
    }
    if cfg.prop == "C06" || cfg.prop == "C07" || cfg.prop == "C02" {
        // the concurrent parts of C06 (honest and tampered openers) and C07 (a mismatched receiver next to other key
        // schedules) under every preemption-bounded schedule
        let c06 = cfg.prop == "C06";
        let part = if cfg.prop == "C02" {
            // whole sessions of different suites side by side: every byte on the wire still R1's
            let sc: Vec<Scenario> = scenarios(cfg.seed, t).into_iter().filter(|s| s.name.starts_with('Y') || s.name.starts_with('W')).collect();
            E3b { scen: sc, bounds: if t { vec![0, 1, 2] } else { vec![0, 1] }, stats: Mutex::new(vec![]), label: Some("E3b-sessions-side-by-side") }
        } else if c06 {
            E3b { scen: tamper_scenarios(cfg.seed, t), bounds: if t { vec![0, 1, 2, 3] } else { vec![0, 1, 2] }, stats: Mutex::new(vec![]), label: Some("E3b-honest-vs-tampered-openers") }
        } else {
            E3b { scen: binding_scenarios(cfg.seed, t), bounds: if t { vec![0, 1, 2] } else { vec![0, 1] }, stats: Mutex::new(vec![]), label: Some("E3b-mismatched-receiver-among-other-key-schedules") }
        };
        if let Some(path) = &cfg.replay {
            let v: serde_json::Value = serde_json::from_str(&std::fs::read_to_string(path).expect("cannot read replay file")).expect("bad replay file");
            match replay_part(&part, &cfg, &v["case"]) {
                Ok(o) => {
                    println!("replay: {} comparisons, {} mismatches", o.transitions, o.mismatches.len());
                    for m in &o.mismatches {
                        println!("  MISMATCH {}", m.msg);
                    }
                    std::process::exit(if o.mismatches.is_empty() { 0 } else { 1 });
                }
                Err(e) => {
                    eprintln!("{}", e);
                    std::process::exit(2);
                }
            }
        }
        let mut c1 = cfg.clone();
        c1.threads = 1;
        let mut r = run_part(&part, &c1);
        r.rule = if cfg.prop == "C02" { "two (thorough: also three) whole sessions - sender or receiver setup, messages, exports - of different suites, of one suite with other keys, and of suites that share KEM and KDF run on real threads side by side; under every schedule with at most B preemptions at the in-library scheduling points every encapsulated key, ciphertext, plaintext and export is R1's".to_string() } else if !c06 { "three real threads: a receiver whose setup differs from the sender's in ONE component (info || 00, one psk_id bit, the mode, one psk bit), an unrelated sender setup, and a receiver with exactly the sender's parameters run side by side; under every schedule with at most B preemptions at the in-library scheduling points the mismatched receiver's export equals R1's value for ITS parameters (so it differs from the sender's) and it rejects the sender's ciphertext, while the other two get R1's results too".to_string() } else { "an honest and a tampered copy (one ciphertext bit / one tag bit) of the same message are opened AT THE SAME TIME by two real threads through the same interface (open, open_in_place_detached on contexts of one session; single_shot_open, single_shot_open_in_place_detached) with the same recipient key: under every schedule with at most B preemptions at the in-library scheduling points the honest copy opens to its plaintext and the tampered one fails with OpenError".to_string() };
        eprintln!("  part {}: cases {} schedules {} transitions {} violating {} ({:.1}s)", r.name, r.run, r.states, r.transitions, r.violations.len(), r.wall_s);
        if !r.machinery_errors.is_empty() {
            for e in &r.machinery_errors {
                eprintln!("MACHINERY-ERROR {}", e);
            }
            std::process::exit(2);
        }
        let path = emit_part.expect("sched C06/C07 needs --emit-part <file>");
        std::fs::write(&path, serde_json::to_string(&vec![r]).unwrap()).expect("cannot write part file");
        std::process::exit(0);
    }
    let defs = script_defs(cfg.seed);
    // E3a sets: (scripts, ops, placements, prefix length)
    let mut split: Vec<Placement> = (0..8u8).map(Placement::Split).collect();
    let mut placements3 = vec![Placement::Inline, Placement::Pinned, Placement::Migrate];
    placements3.append(&mut split);
    let mut sets = vec![(vec![0usize, 1, 2], 3usize, placements3, 3usize)];
    sets.push((vec![0, 3, 5], 3, vec![Placement::Inline, Placement::Migrate], 3));
    sets.push((vec![4, 6, 2], 3, vec![Placement::Inline], 3));
    // two parties x 4 operations each (two seals / two opens per context), every operation on another worker than the
    // previous one: a context that is used on several threads during its life
    sets.push((vec![0, 4], 4, vec![Placement::Migrate, Placement::Pinned, Placement::Split(5), Placement::Split(10)], 2));
    // error paths in between: a party whose operations all fail, next to a sender and a receiver on the same KEM
    sets.push((vec![7, 0, 4], 3, vec![Placement::Inline, Placement::Migrate], 3));
    if t {
        sets.push((vec![0, 1, 2, 3], 3, vec![Placement::Inline], 4));
        sets.push((vec![0, 1, 2], 4, vec![Placement::Inline, Placement::Migrate], 3));
    }
    let e3a = E3a { defs, sets };
    let e3b = E3b { scen: scenarios(cfg.seed, t), bounds: if t { vec![0, 1, 2, 3] } else { vec![0, 1, 2] }, stats: Mutex::new(vec![]), label: None };
    if let Some(path) = &cfg.replay {
        let v: serde_json::Value = serde_json::from_str(&std::fs::read_to_string(path).expect("cannot read replay file")).expect("bad replay file");
        let pairs = SuitePairs { modes: vec![] };
        let res = if v["part"].as_str() == Some(&e3a.name()) {
            replay_part(&e3a, &cfg, &v["case"])
        } else if v["part"].as_str() == Some(&pairs.name()) {
            replay_part(&pairs, &cfg, &v["case"])
        } else if v["part"].as_str() == Some("E3i-cold-start-schedules") {
            replay_part(&ColdStart { scen: cold_scenarios(cfg.seed), bounds: vec![0, 1, 2] }, &cfg, &v["case"])
        } else if v["part"].as_str() == Some(&Rotation.name()) {
            replay_part(&Rotation, &cfg, &v["case"])
        } else if v["part"].as_str() == Some(&ObjectReuse.name()) {
            replay_part(&ObjectReuse, &cfg, &v["case"])
        } else if v["part"].as_str() == Some(&LongHistories.name()) {
            replay_part(&LongHistories, &cfg, &v["case"])
        } else if v["part"].as_str() == Some(&FirstCalls { len3_suites: 3 }.name()) {
            replay_part(&FirstCalls { len3_suites: 3 }, &cfg, &v["case"])
        } else {
            replay_part(&e3b, &cfg, &v["case"])
        };
        match res {
            Ok(o) => {
                println!("replay: {} comparisons, {} mismatches", o.transitions, o.mismatches.len());
                for m in &o.mismatches {
                    println!("  MISMATCH {}", m.msg);
                }
                std::process::exit(if o.mismatches.is_empty() { 0 } else { 1 });
            }
            Err(e) => {
                eprintln!("{}", e);
                std::process::exit(2);
            }
        }
    }
    let mut reports: Vec<PartReport> = vec![];
    let want = |n: &str| cfg.only_part.as_ref().map(|f| n.contains(f.as_str())).unwrap_or(true);
    if want(&e3a.name()) {
        let r = run_part(&e3a, &cfg);
        eprintln!("  part {}: cases {} interleavings {} transitions {} violating {} ({:.1}s)", r.name, r.run, r.states, r.transitions, r.violations.len(), r.wall_s);
        reports.push(r);
    }
    let pairs = SuitePairs { modes: if t { vec![Mode::Base, Mode::Psk, Mode::Auth, Mode::AuthPsk] } else { vec![Mode::Base, Mode::AuthPsk] } };
    if want(&pairs.name()) {
        let r = run_part(&pairs, &cfg);
        eprintln!("  part {}: cases {} transitions {} violating {} ({:.1}s)", r.name, r.run, r.transitions, r.violations.len(), r.wall_s);
        reports.push(r);
    }
    let fc = FirstCalls { len3_suites: 3 };
    if want(&fc.name()) {
        let r = run_part(&fc, &cfg);
        eprintln!("  part {}: cases {} transitions {} violating {} ({:.1}s)", r.name, r.run, r.transitions, r.violations.len(), r.wall_s);
        reports.push(r);
    }
    let cold = ColdStart { scen: cold_scenarios(cfg.seed), bounds: if t { vec![0, 1, 2] } else { vec![0, 1] } };
    if want(&cold.name()) {
        let r = run_part(&cold, &cfg);
        eprintln!("  part {}: cases {} schedules (one process each) {} violating {} ({:.1}s)", r.name, r.run, r.states, r.violations.len(), r.wall_s);
        reports.push(r);
    }
    if want(&Rotation.name()) {
        let r = run_part(&Rotation, &cfg);
        eprintln!("  part {}: cases {} sequences {} violating {} ({:.1}s)", r.name, r.run, r.states, r.violations.len(), r.wall_s);
        reports.push(r);
    }
    if want(&ObjectReuse.name()) {
        let r = run_part(&ObjectReuse, &cfg);
        eprintln!("  part {}: cases {} sequences {} violating {} ({:.1}s)", r.name, r.run, r.states, r.violations.len(), r.wall_s);
        reports.push(r);
    }
    if want(&LongHistories.name()) {
        let r = run_part(&LongHistories, &cfg);
        eprintln!("  part {}: cases {} transitions {} violating {} ({:.1}s)", r.name, r.run, r.transitions, r.violations.len(), r.wall_s);
        reports.push(r);
    }
    if want(&e3b.name()) {
        // the scheduler is process-global: one case at a time
        let mut c1 = cfg.clone();
        c1.threads = 1;
        let r = run_part(&e3b, &c1);
        eprintln!("  part {}: cases {} schedules {} transitions {} violating {} ({:.1}s)", r.name, r.run, r.states, r.transitions, r.violations.len(), r.wall_s);
        reports.push(r);
    }
    let stress = SharedObjects;
    if want(&stress.name()) {
        let mut c1 = cfg.clone();
        c1.threads = 2;
        let r = run_part(&stress, &c1);
        eprintln!("  part {}: cases {} rounds {} transitions {} violating {} ({:.1}s)", r.name, r.run, r.states, r.transitions, r.violations.len(), r.wall_s);
        reports.push(r);
    }
    if let Some(n) = sendsync_types {
        let mut r = PartReport { name: "compile-probe-send-sync".into(), rule: "assert_send_sync::<T>() for AeadCtxS/R of all 48 suites, public/private/encapsulated keys, OpModeS/R and SharedSecret of all 4 KEMs, the 4 tag types, PskBundle, HpkeError: the probe binary compiled and ran".into(), bound: "all suites".into(), ..Default::default() };
        r.cases = n;
        r.run = n;
        r.distinct = n;
        r.distinct_nontrivial = n;
        r.transitions = n;
        r.validated = n;
        r.exhaustive = true;
        r.samples = vec![serde_json::json!("AeadCtxS<ChaCha20Poly1305, HkdfSha256, X25519HkdfSha256>: Send + Sync")];
        reports.push(r);
    }
    let assumptions = vec![
        "preemption happens only at the cfg(hpke_verif) scheduling points and at thread exit; state introduced and consumed strictly between two adjacent points is seen only if it is also visible sequentially (E3a) or is a data race (free-running Miri pass, thorough tier)".into(),
        "at most 3 threads and 2 preemptions; R1 gives the sequential results".into(),
    ];
    let s = finish(&cfg, "model_checking", reports, assumptions, t0);
    if s.violations > 0 {
        std::process::exit(1);
    }
    if s.machinery_errors > 0 {
        std::process::exit(2);
    }
}
