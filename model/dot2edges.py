#!/usr/bin/env python3
"""Converts the labelled state graph dumped by TLC (-dump dot,actionlabels) into one JSON line per distinct
(position state, action) pair: from-state, action (taken from the successor's `last` variable), the
specified result (`res`) and the successor's position state. usage: dot2edges.py graph.dot edges.jsonl"""
import json, re, sys
def parse_state(label):
    d = {}
    for m in re.finditer(r'/\\\\ (\w+) = (.*?)(?=\\n/\\\\ |$)', label):
        d[m.group(1)] = m.group(2)
    return d
def pos(d):
    return {"s_pos": int(d["sPos"]), "s_dead": d["sDead"] == "TRUE", "r_pos": int(d["rPos"]), "r_dead": d["rDead"] == "TRUE"}
def main():
    nodes = {}; edges = []
    node_re = re.compile(r'^(-?\d+) \[label="(.*?)",(?:tooltip|style)')
    edge_re = re.compile(r'^(-?\d+) -> (-?\d+) \[label="(.*?)"')
    for line in open(sys.argv[1]):
        m = edge_re.match(line)
        if m:
            edges.append((m.group(1), m.group(2), m.group(3))); continue
        m = node_re.match(line)
        if m:
            nodes[m.group(1)] = parse_state(m.group(2))
    out = {}; states = set()
    for a, b, lab in edges:
        sa, sb = nodes[a], nodes[b]
        last = re.findall(r'\\"(\w+)\\"|(\d+)', sb["last"])
        toks = [x[0] or x[1] for x in last]          # kind, j, corr, api
        kind, j, corr, api = toks[0], int(toks[1]), toks[2], toks[3]
        # the edge label printed by TLC must say the same thing as the `last` variable
        if not lab.replace('\\"', '').startswith(kind):
            raise SystemExit("edge label %r does not match last=%r" % (lab, sb["last"]))
        key = (json.dumps(pos(sa), sort_keys=True), kind, j, corr, api)
        rec = {"from": pos(sa), "kind": kind, "j": j, "corr": corr, "api": api, "res": sb["res"].strip('\\"'), "to": pos(sb)}
        if key in out and out[key] != rec:
            raise SystemExit("nondeterministic model edge: %r vs %r" % (out[key], rec))
        out[key] = rec
        states.add(json.dumps(pos(sa), sort_keys=True)); states.add(json.dumps(pos(sb), sort_keys=True))
    with open(sys.argv[2], "w") as f:
        for rec in out.values(): f.write(json.dumps(rec) + "\n")
    print(json.dumps({"tlc_nodes": len(nodes), "tlc_edges": len(edges), "distinct_position_states": len(states), "distinct_state_action_pairs": len(out)}))
if __name__ == "__main__":
    main()
