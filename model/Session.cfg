CONSTANT W = 2
SPECIFICATION Spec
INVARIANT TypeOK
INVARIANT I1_NoncesUsedOnce
INVARIANT I2_ExhaustionLatched
INVARIANT I3_AcceptedInOrder
INVARIANT I3b_ReceiverNotAhead
PROPERTY I1t_NoReuse
CHECK_DEADLOCK FALSE
