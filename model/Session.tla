---------------------------- MODULE Session ----------------------------
(* Abstract session model M(W) of an HPKE sender/receiver context pair with a W-bit sequence counter.
   Independent re-statement (in TLA+) of the model in harness/src/session.rs; TLC explores its complete
   reachable graph, checks the invariants, and dumps the labelled graph, every edge of which is then
   replayed on the real implementation (engine E2a-tlc).  `last` and `res` record the action taken and
   the specified result so that an edge of the dumped graph carries everything needed for the replay. *)
EXTENDS Naturals, FiniteSets

CONSTANT W
Last == 2^W - 1

Corrs == {"None", "FlipCt", "FlipTag", "WrongAad", "DropLast", "ShortTag", "Append", "TagOfOther", "AadOfOther", "Zeros", "Empty"}
Apis  == {"Alloc", "InPlace"}

VARIABLES sPos, sDead, rPos, rDead,   \* the two-variable machines of sender and receiver
          used, accepted,              \* history: nonces used by successful seals, indices accepted (in order)
          last, res                    \* the action that led here and its specified result

vars == <<sPos, sDead, rPos, rDead, used, accepted, last, res>>

Sealed == IF sDead THEN Last + 1 ELSE sPos
NAccepted == IF rDead THEN Last + 1 ELSE rPos

Init == /\ sPos = 0 /\ sDead = FALSE /\ rPos = 0 /\ rDead = FALSE
        /\ used = {} /\ accepted = {}
        /\ last = <<"Init", 0, "None", "Alloc">> /\ res = "Init"

Seal(api) ==
    /\ last' = <<"Seal", 0, "None", api>>
    /\ IF sDead
         THEN /\ res' = "SealLimit"
              /\ UNCHANGED <<sPos, sDead, rPos, rDead, used, accepted>>
         ELSE /\ res' = "SealOk"
              /\ used' = used \cup {sPos}
              /\ IF sPos = Last THEN sDead' = TRUE /\ sPos' = sPos ELSE sPos' = sPos + 1 /\ sDead' = sDead
              /\ UNCHANGED <<rPos, rDead, accepted>>

Deliver(j, c, api) ==
    /\ j < Sealed                      \* the adversary delivers (a corruption of) a message that exists
    /\ last' = <<"Deliver", j, c, api>>
    /\ IF rDead
         THEN /\ res' = "OpenLimit"
              /\ UNCHANGED <<sPos, sDead, rPos, rDead, used, accepted>>
         ELSE IF j = rPos /\ c = "None"
           THEN /\ res' = "OpenOk"
                /\ accepted' = accepted \cup {j}
                /\ IF rPos = Last THEN rDead' = TRUE /\ rPos' = rPos ELSE rPos' = rPos + 1 /\ rDead' = rDead
                /\ UNCHANGED <<sPos, sDead, used>>
           ELSE /\ res' = "OpenErr"
                /\ UNCHANGED <<sPos, sDead, rPos, rDead, used, accepted>>

Next == \/ \E api \in Apis : Seal(api)
        \/ \E j \in 0..Last, c \in Corrs, api \in Apis : Deliver(j, c, api)

Spec == Init /\ [][Next]_vars

TypeOK == /\ sPos \in 0..Last /\ rPos \in 0..Last /\ sDead \in BOOLEAN /\ rDead \in BOOLEAN
          /\ used \subseteq 0..Last /\ accepted \subseteq 0..Last
I1_NoncesUsedOnce      == used = {i \in 0..Last : i < Sealed}       \* every position below the sender is used, exactly those
I2_ExhaustionLatched   == (sDead => sPos = Last) /\ (rDead => rPos = Last)
I3_AcceptedInOrder     == accepted = {i \in 0..Last : i < NAccepted}
I3b_ReceiverNotAhead   == NAccepted <= Sealed
\* a successful seal never happens at a position already used (checked on the transition)
I1t_NoReuse == [][(res' = "SealOk") => (sPos \notin used)]_vars
=============================================================================
