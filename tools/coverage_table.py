#!/usr/bin/env python3
"""Prints a markdown table of what the evidence files in a directory say was covered. usage: coverage_table.py [dir]"""
import json, sys, glob, os
d = sys.argv[1] if len(sys.argv) > 1 else "/verif/evidence"
print("| Id | tier | level | cases | transitions (compared calls) | model states / schedules / histories | distinct outcomes | wall s | parts |")
print("|---|---|---|---|---|---|---|---|---|")
for f in sorted(glob.glob(d + "/C*.json")):
    e = json.load(open(f)); c = e["coverage"]
    parts = "; ".join(f"{p['name']}: {p['cases_run']} cases" for p in c.get("parts", [])) or c.get("rule", "")[:60]
    print(f"| {e['property_id']} | {e['tier']} | {e['level']} | {c.get('evaluations')} | {c.get('transitions','-')} | {c.get('states','-')} | {c.get('distinct_outcomes','-')} | {e['wall_s']} | {parts} |")
