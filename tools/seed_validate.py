#!/usr/bin/env python3
"""Confirms a seeded change: it applies to /repo HEAD, the pinned test suite still passes with it, and
its demonstration fails with it and passes without it. Everything happens in scratch worktrees under
/tmp/val (removed afterwards); /repo itself is never touched.
usage: seed_validate.py [ids...]   (default: every /tmp/seed/Cxx/_seed/{A,B})"""
import json, os, re, shutil, subprocess, sys, glob
from concurrent.futures import ThreadPoolExecutor
SEED = "/tmp/seed"; VAL = "/tmp/val"; OUT = "/verif/seeded"
NW = 4

def sh(cmd, cwd, env=None, timeout=1800):
    e = dict(os.environ, CARGO_NET_OFFLINE="true", CARGO_TERM_COLOR="never"); e.update(env or {})
    p = subprocess.run(cmd, cwd=cwd, env=e, shell=isinstance(cmd, str), stdout=subprocess.PIPE, stderr=subprocess.STDOUT, text=True, timeout=timeout)
    return p.returncode, p.stdout

# demonstrations that need a particular build to show (taken from the agent's notes.md): extra cargo arguments and
# whether the verification guard must be ON (True), OFF (False) or is chosen by the default rule (None)
OVERRIDES = {
    "C08-5B": (["--release"], None), "C18-5A": (["--release"], None),
    "C01-6B": (["--features", "p384"], None), "C02-6B": ([], False), "C03-6B": (["--release"], None),
    "C05-6A": (["--release"], None), "C07-6A": (["--release"], None), "C10-6B": ([], False),
    "C11-6A": (["--release"], None), "C12-6A": (["--release"], None), "C15-6A": (["--features", "std"], None),
    "C15-6B": (["--features", "std"], None), "C16-6A": (["--release"], True), "C17-6B": ([], False),
    "C01-7A": (["--release"], None), "C03-7A": (["--features", "p384"], None), "C04-7A": (["--release"], True),
    "C04-7B": (["--no-default-features", "--features", "x25519"], False), "C05-7B": (["--no-default-features", "--features", "std,x25519"], True),
    "C13-7B": (["--features", "p384"], None), "C16-7B": (["--no-default-features", "--features", "x25519"], None),
    "C18-7B": (["--features", "std"], None), "C17-7A": ([], False),
    "C01-8B": (["--features", "p521"], None), "C02-8A": (["--release"], None), "C08-8B": (["--features", "std"], None),
    "C14-8A": (["--release"], None), "C15-8B": (["--release"], None), "C16-8A": (["--features", "std"], None),
    "C17-8A": (["--features", "std"], None), "C17-8B": (["--no-default-features", "--features", "x25519"], None),
    "C07-9A": (["--features", "std"], None), "C17-9A": (["--no-default-features", "--features", "x25519"], None),
    "C17-9B": (["--release"], None), "C02-9B": ([], True), "C04-9B": (["--release"], None),
    "C02-0B": (["--features", "p384"], None), "C09-0A": ([], False), "C09-0B": (["--features", "std"], None),
    "C14-0B": (["--no-default-features", "--features", "std x25519"], True), "C17-0A": (["--no-default-features", "--features", "p384"], None),
    "C17-0B": ([], False), "C08-0A": (["--no-default-features", "--features", "x25519 p256"], None),
}


def demo_cmd(sid, demo_text, notes):
    if sid in OVERRIDES:
        extra, guard = OVERRIDES[sid]
        if guard is None:
            guard = "hpke_verif" in demo_text
        return ["cargo", "test", "--offline", "--test", "seed_demo"] + extra, ({"RUSTFLAGS": "--cfg hpke_verif"} if guard else {})
    env = {}
    if "hpke_verif" in demo_text: env["RUSTFLAGS"] = "--cfg hpke_verif"
    feats = []
    m = re.search(r"cargo test[^\n`]*--test seed_demo\w*[^\n`]*", notes)
    line = m.group(0) if m else ""
    if "--all-features" in line or re.search(r"DhP384|DhP521|p384|p521", demo_text): feats = ["--all-features"]
    m2 = re.search(r"--no-default-features\s+--features[ =]\"?([a-z0-9,]+)\"?", line)
    if m2: feats = ["--no-default-features", "--features", m2.group(1)]
    return ["cargo", "test", "--offline", "--test", "seed_demo"] + feats, env

def validate(args):
    sid, w = args
    prop, ab = sid.split("-")
    # ids of later rounds look like C04-2A: round digit + letter, under /tmp/seed<round>
    src = f"{SEED}{ab[0]}/{prop}/_seed/{ab[1:]}" if ab[0].isdigit() else f"{SEED}/{prop}/_seed/{ab}"
    wt = f"{VAL}/w{w}"; td = f"{VAL}/t{w}"
    res = {"id": sid, "property": prop}
    sh("git reset -q --hard && git clean -fdq", wt)
    patch = os.path.abspath(f"{src}/patch.diff")
    rc, out = sh(["git", "apply", patch], wt)
    if rc != 0:
        rc, out = sh(["git", "apply", "--3way", patch], wt)
        res["apply"] = "3way" if rc == 0 else "FAILED: " + out[-300:]
        if rc != 0: return res
        sh("git reset -q", wt)
    else:
        res["apply"] = "clean"
    rc, diff = sh(["git", "diff"], wt)
    res["diff"] = diff
    env = {"CARGO_TARGET_DIR": td}
    rc, out = sh(["cargo", "test", "--workspace", "--no-fail-fast", "--offline"], wt, env)
    passed = re.findall(r"test result: (\w+)\. (\d+) passed; (\d+) failed", out)
    res["suite_with_change"] = passed
    res["suite_ok"] = (rc == 0 and len(passed) >= 2 and passed[0] == ("ok", "35", "0") and passed[-1][0] == "ok")
    rc, out = sh(["cargo", "build", "--offline", "--all-features"], wt, env)
    res["all_features_build"] = rc == 0
    demo_text = open(f"{src}/demo.rs").read(); notes = open(f"{src}/notes.md").read()
    cmd, denv = demo_cmd(sid, demo_text, notes); denv.update(env)
    os.makedirs(f"{wt}/tests", exist_ok=True); shutil.copy(f"{src}/demo.rs", f"{wt}/tests/seed_demo.rs")
    rc, out = sh(cmd, wt, denv)
    res["demo_cmd"] = " ".join(cmd) + (" [RUSTFLAGS=--cfg hpke_verif]" if "RUSTFLAGS" in denv else "")
    res["demo_with_change_fails"] = rc != 0
    res["demo_with_change_tail"] = "\n".join([l for l in out.splitlines() if "panicked" in l or "test result" in l or l.startswith("error")][:6])
    sh("git checkout -q -- .", wt)
    rc, out = sh(cmd, wt, denv)
    res["demo_without_change_passes"] = rc == 0
    if rc != 0: res["demo_without_change_tail"] = out[-600:]
    sh("git checkout -q -- . && git clean -fdq", wt)
    res["confirmed"] = bool(res["suite_ok"] and res["demo_with_change_fails"] and res["demo_without_change_passes"])
    # keep it
    d = f"{OUT}/{sid}"; os.makedirs(d, exist_ok=True)
    open(f"{d}/patch.diff", "w").write(diff)       # the diff as it applies to the current /repo HEAD
    shutil.copy(f"{src}/demo.rs", f"{d}/demo.rs"); shutil.copy(f"{src}/notes.md", f"{d}/notes.md")
    for extra in glob.glob(f"{src}/*"):
        if os.path.basename(extra) not in ("patch.diff", "demo.rs", "notes.md") and os.path.getsize(extra) < 200000: shutil.copy(extra, d)
    meta = {k: v for k, v in res.items() if k != "diff"}
    json.dump(meta, open(f"{d}/validation.json", "w"), indent=1)
    return res

def main():
    ids = sys.argv[1:] or sorted(f"{os.path.basename(os.path.dirname(os.path.dirname(p.rstrip('/'))))}-{os.path.basename(p.rstrip('/'))}" for p in glob.glob(f"{SEED}/C*/_seed/*/"))
    os.makedirs(VAL, exist_ok=True)
    for w in range(NW):
        if not os.path.exists(f"{VAL}/w{w}"):
            subprocess.run(["git", "-C", "/repo", "worktree", "add", "-q", "--detach", f"{VAL}/w{w}", "HEAD"], check=True)
            shutil.copy("/repo/Cargo.lock", f"{VAL}/w{w}/Cargo.lock")
    chunks = [ids[i::NW] for i in range(NW)]
    def work(w):
        out = []
        for s in chunks[w]:
            try:
                out.append(validate((s, w)))
            except Exception as e:
                out.append({"id": s, "apply": "EXCEPTION %r" % e})
        return out
    with ThreadPoolExecutor(NW) as ex:
        allres = [r for rs in ex.map(work, range(NW)) for r in rs]
    for r in sorted(allres, key=lambda r: r["id"]):
        print(r["id"], "apply:", r.get("apply"), "suite_ok:", r.get("suite_ok"), "demo fails with:", r.get("demo_with_change_fails"), "passes without:", r.get("demo_without_change_passes"), "=> CONFIRMED" if r.get("confirmed") else "=> NOT CONFIRMED")
    for w in range(NW):
        subprocess.run(["git", "-C", "/repo", "worktree", "remove", "--force", f"{VAL}/w{w}"])
        shutil.rmtree(f"{VAL}/t{w}", ignore_errors=True)
if __name__ == "__main__":
    main()
