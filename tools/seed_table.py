#!/usr/bin/env python3
"""Collects validation + evaluation results of the seeded changes, writes seeded/<id>/meta.json and prints the
markdown tables for DESIGN.md section 13. Evaluation results are read from /tmp/mut*/results (copied into
seeded/<id>/eval.<tier>.json so that they are kept)."""
import glob, json, os, shutil, sys
sys.path.insert(0, os.path.dirname(__file__))
from seed_summaries import S
ROOT = "/verif/seeded"
for d in ("/tmp/mut/results", "/tmp/mut2/results"):
    for f in sorted(glob.glob(d + "/*.json"), key=os.path.getmtime):
        sid, tier, _ = os.path.basename(f).rsplit(".", 2)
        if not os.path.isdir(f"{ROOT}/{sid}"):
            continue
        new = json.load(open(f)); dst = f"{ROOT}/{sid}/eval.{tier}.json"
        old = json.load(open(dst)) if os.path.exists(dst) else {"id": sid, "tier": tier, "checks": {}}
        old["checks"].update(new["checks"])       # later runs (after strengthening) override earlier ones, per check
        json.dump(old, open(dst, "w"), indent=1)
rows = []
for d in sorted(glob.glob(ROOT + "/C*-*")):
    sid = os.path.basename(d); prop = sid.split("-")[0]
    val = json.load(open(d + "/validation.json")) if os.path.exists(d + "/validation.json") else {}
    ev = json.load(open(d + "/eval.quick.json")) if os.path.exists(d + "/eval.quick.json") else {"checks": {}}
    site, what, needs = S.get(sid, ("?", "?", "?"))
    caught = sorted(c for c, r in ev["checks"].items() if r["exit"] == 1)
    clean = sorted(c for c, r in ev["checks"].items() if r["exit"] == 0)
    mach = sorted(c for c, r in ev["checks"].items() if r["exit"] not in (0, 1))
    rnd = sid.split("-")[1][0] if sid.split("-")[1][0].isdigit() else "1"
    meta = {"id": sid, "breaks_property": prop, "origin": f"independent sub-agent, round {rnd}, given only the property text and a scratch worktree",
            "site": site, "change": what, "needs_to_manifest": needs,
            "confirmed": {"applies_to_repo_head": val.get("apply"), "pinned_suite_passes_with_change": val.get("suite_ok"), "all_features_build": val.get("all_features_build"),
                          "demo_cmd": val.get("demo_cmd"), "demo_fails_with_change": val.get("demo_with_change_fails"), "demo_passes_without_change": val.get("demo_without_change_passes"),
                          "how": "tools/seed_validate.py in a scratch worktree of /repo HEAD (removed afterwards)"},
            "detection_quick_tier": {"own_check": ev["checks"].get(prop), "caught_by": caught, "not_caught_by": clean, "machinery_error_in": mach,
                                     "how": "tools/seed_eval.py: ./check <id> --tier quick with the patch applied to a private copy of /repo bind-mounted over /repo"}}
    json.dump(meta, open(d + "/meta.json", "w"), indent=1)
    first = (ev["checks"].get(prop) or {}).get("first", "")
    rows.append((sid, prop, site, what, needs, val.get("confirmed"), (ev["checks"].get(prop) or {}).get("exit"), caught, mach, first))
if "--md" in sys.argv:
    print("| Id | Site | Change | Needs | own check | also caught by |")
    print("|---|---|---|---|---|---|")
    for sid, prop, site, what, needs, conf, own, caught, mach, first in rows:
        o = {1: "**caught**", 0: "MISSED", None: "not run"}.get(own, "machinery")
        others = ", ".join(c for c in caught if c != prop) or "-"
        if mach: others += " (nondeterminism reported as machinery error in " + ", ".join(mach) + ")"
        print(f"| {sid} | `{site}` | {what} | {needs} | {o} | {others} |")
else:
    for r in rows:
        print(r[0], "confirmed" if r[5] else "NOT-CONFIRMED", "own:", r[6], "caught_by:", ",".join(r[7]), "mach:", ",".join(r[8]))
