#!/bin/bash
# runs every registered check in the given tier and keeps a copy of the evidence files: run_all.sh quick|thorough [outdir]
tier=${1:-quick}; out=${2:-/verif/target/evidence-$tier}; mkdir -p $out
cd /verif
for p in C01 C02 C03 C04 C05 C06 C07 C08 C09 C10 C11 C12 C13 C14 C15 C16 C17 C18; do
  /usr/bin/time -f "$p wall %es" ./check $p --tier $tier > $out/$p.log 2>&1; echo "$p exit $? $(tail -1 $out/$p.log)"
  cp evidence/$p.json $out/ 2>/dev/null
done
