#!/usr/bin/env python3
"""Regenerates /verif/MANIFEST.json from the table below (run whenever a check is added)."""
import json, os, subprocess
ROOT='/verif'
props=[json.loads(l) for l in open(f'{ROOT}/properties.jsonl')]
TB="trusted: rustc/cargo; the harness adapters, scripted RNG and catch_unwind observation layer; reference model R1 (harness/src/refmodel.rs, pinned by RFC 9180 Appendix A vectors in its self-test and by the independent pure-Python reference R2); primitive cores R1 shares with the crate's dependency tree (sha2, AEAD ciphers, scalar multiplication), pinned by R2; "
# id: (level, technique, text, note-suffix, engine)
T={
'C01':('model_checking','bounded-exhaustive enumeration (suites x modes x input shapes x message sequences) executed on the real API, R1 in lock-step',
       'Every one of 36 sealing suites x 4 modes is driven through a grid of plaintext/aad lengths straddling AEAD and hash block sizes and through all message-shape sequences up to length 3, alternating the allocating and in-place APIs on both sides; each opened plaintext, ciphertext length, buffer length and the ciphertext bytes (vs R1) are compared. Exhaustive over the stated shape alphabets, not over byte values.','byte contents beyond the fill patterns, plaintexts > 64KiB+1 are outside the bound','hpke-mc'),
'C02':('model_checking','bounded-exhaustive enumeration, implementation vs executable RFC 9180 reference (R1) in both directions, transcript sub-grid recomputed by an independent Python reference (R2)',
       'All 48 suites x 4 modes x info/psk shapes x message sequences: sender output (enc, ciphertexts, exports) must equal R1 byte for byte when the scripted RNG supplies ikmE, and the receiver must open R1-made traffic; R2 (pure Python, no shared code) recomputes a sub-grid and is itself anchored to RFC 9180 Appendix A, RFC 7748, RFC 5869, GCM and RFC 8439 vectors.','RFC text as transcribed in R1/R2; empty PSK bundles are outside C02 (RFC defines no output)','hpke-mc + ref/'),
'C03':('model_checking','bounded-exhaustive enumeration of DHKEM operations vs R1 and R2, incl. a searched witness for the P-256 rejection branch',
       'DeriveKeyPair for 4 KEMs over ikm lengths/fills and every 1- and 2-byte ikm, GenerateKeyPair vs the bytes drawn, Encap/Decap/AuthEncap/AuthDecap for key triples in both directions; the only reachable input that exercises the NIST candidate-rejection loop (found by bounded search) is included.','NIST rejection loop beyond the single P-256 witness (2^-32 per ikm) is out of reach','hpke-mc + ref/'),
'C04':('model_checking','explicit-state model M(W) checked with stateright + every model edge replayed on the implementation under 5-10 embeddings; unmerged history trees; nonce formula at every bit/byte carry',
       'The nonce is observed through the ciphertext (= R1.Seal under base_nonce XOR I2OSP(pos)) at ~190 boundary positions, over a consecutive run from 0 through the public API, on every edge of the scaled-down counter model (complete graph incl. exhaustion, invariants I1/I2 by stateright) and on all seal/export histories up to depth 5-7 from positions around 2^64-1.','positions outside the explored sets; the context is assumed to have no state besides (seq, overflowed) - explored separately by history trees','hpke-mc'),
'C05':('model_checking','explicit-state model M(W) checked with stateright + every model edge (11 corruption classes x 2 APIs x every sealed index) replayed on the implementation; unmerged history trees over a 12-letter alphabet with the model in lock-step',
       'Receiver acceptance is decided against the abstract model and R1 on the concrete bytes after every step, including the (seq, overflowed) pair read through the hook; all edges of M(3)/M(4) under several embeddings incl. the top-aligned one (real exhaustion), and every history up to depth 3-5 from boundary start positions.','corruption classes use one representative position each (C06 enumerates all bits)','hpke-mc'),
'C06':('model_checking','bounded-exhaustive enumeration of tampering variants (every bit of body/tag/aad, every truncation and extension length, every cross-message substitution) x 4 opening interfaces on R1-produced sessions',
       'For each target message shape (incl. value witnesses where a cut-off byte is already 00) and position, every single-bit flip, truncation, extension and substitution is delivered to open, open_in_place_detached and both single-shot forms; each must return OpenError and the untampered message must still be accepted afterwards.','multi-bit modifications other than substitutions are not enumerated','hpke-mc'),
'C07':('model_checking','bounded-exhaustive enumeration of single-component perturbations of the receiver setup per baseline session',
       'For every baseline (suite x mode x shapes) every bit of info/psk/psk_id, appended/dropped bytes, field-boundary shifts, every other mode with the same data, every other KDF/AEAD, other recipient key, other and bit-flipped/negated enc is applied to the receiver: setup must fail or all sender ciphertexts are rejected and all exports differ; the unperturbed receiver is the non-vacuity control.','exports of >= 16 bytes are taken as different iff unequal','hpke-mc'),
'C08':('model_checking','bounded-exhaustive enumeration of impostor senders per receiver (identity pairs, pk-only pairing, non-auth modes, negated identity, every PSK / PSK-id bit)',
       'A receiver in Auth/AuthPsk/Psk mode is confronted with sessions from each impostor class; none may be accepted (no ciphertext opens, every export differs), the honest sender must be.','impostor key pairs are derived from seeds; PSK bit flips use stride 7 for P-384/P-521 and 300-byte PSKs','hpke-mc'),
'C09':('model_checking','bounded-exhaustive enumeration of crafted and perturbed key encodings (every length, every tag byte, bit flips, non-canonical coordinates, twist / other-b points, scalar range boundaries), verdict from an independent Python validity predicate (R2)',
       'About 10^4 encodings per run for P-256/384/521 public, encapsulated and private keys; each must be accepted iff R2 says it is the canonical uncompressed encoding of a curve point (resp. a scalar in [1,n-1]), rejected with the exact error kind otherwise, re-serialize to itself when accepted, and never get past the typed API into setup when rejected.','R2 predicate and curve constants (self-validated: primality, n*G=infinity, Hasse, RFC 5903 vectors)','hpke-mc + ref/gen_c09.py'),
'C12':('model_checking','bounded-exhaustive enumeration: all input lengths and buffer lengths 0..=2*size+2 for 16 serializable types, derived values, R2-accepted encodings',
       'Sizes equal the RFC 9180 constants, from_bytes(to_bytes(v)) == v for derived keys / encapsulated keys / real tags, every accepted byte string re-serializes to itself (X25519 private keys up to clamping), wrong lengths give IncorrectInputLength(expected, given) in that order, write_exact panics exactly when the buffer length differs.','','hpke-mc + ref/gen_c09.py'),
'C10':('model_checking','exhaustive enumeration of the 14 small-order encodings x roles x modes x KDF x AEAD x interfaces, oracle = R1 zero-DH predicate; 1556 negatives',
       'Every small-order encoding in every role and mode in which it takes part in a DH must abort setup with EncapError/DecapError (setup and single-shot forms), keys that are in no DH or not of small order must be accepted and yield R1 outputs.','the list of 14 encodings is recomputed from scratch by R2 and validated against R1 at run time','hpke-mc'),
'C13':('model_checking','bounded-exhaustive enumeration of input lengths at every byte-consuming entry point, panics observed through catch_unwind with overflow checks and debug assertions on',
       'Deserialization, setup (info/psk/psk_id), open forms (ciphertext/aad/tag), export (context and output length) and derive_keypair are called with every length of the boundary sets and several fills; each call must return Ok or an HpkeError, and setup errors must be EncapError resp. DecapError.','allocation failure (abort) is not intercepted: an abort kills the run and is reported by ./check as a C13 violation','hpke-mc'),
'C14':('model_checking','bounded-exhaustive enumeration: single-shot vs composed operations run side by side under the same RNG script, over success and every failure class',
       'single_shot_seal*/open* and the composed setup+seal/open are executed on the same inputs (incl. small-order encapsulated keys, truncated and corrupted ciphertexts) and must agree in results, errors and RNG draws; allocating and in-place forms must agree for every split; R1 is compared too so a mutant cannot agree with itself.','','hpke-mc'),
'C15':('model_checking','exhaustive enumeration of all (|psk|,|psk_id|) pairs up to 40/80 bytes x fills for the constructor; PSK-mode key schedules vs R1',
       'PskBundle::new must succeed exactly when both strings are empty or both non-empty (InvalidPskBundle otherwise) for every length pair; the bundle contents must be what enters the key schedule (sender and receiver vs R1, lengths chosen so that swaps/truncations are visible); non-PSK modes use the empty defaults.','','hpke-mc'),
'C11':('model_checking','bounded-exhaustive enumeration of export lengths/contexts vs R1 LabeledExpand; export as an action in every state of the session model',
       'Every L around 0, Nh, 255*Nh and 2^16 for 48 suites x 4 modes x 2 roles, every L at all for one suite per KDF, compared in full with R1; export after seals/opens/rejections/exhaustion (model edges); export-only suites must panic on every seal/open form.','exporter contexts beyond the listed lengths/fills','hpke-mc'),
'C16':('exploration','exhaustive exploration of drop points (every prefix of a short history, both roles, 48 suites x 4 modes): heap-slot memory scan from guard-off and guard-on builds + drop ledger',
       'The object is moved into a 0xAA-filled heap slot; R1 says which secret bytes must be there before the drop (non-vacuity) and they must be zeroed after drop_in_place; the cfg(hpke_verif) drop ledger accounts for the stack-temporary AEAD key and the by-value shared secret inside setup. Level exploration: the oracle is a memory inspection of one build, not a behavioural model.','observes the harness build only; stale copies left by moves and the AEAD cipher key schedule are outside the property','hpke-mc (guard off + guard on)'),
}
registered=[i for i in T if os.path.exists(f'{ROOT}/evidence/{i}.json') or True]
checks=[]
for p in props:
    i=p['id']
    if i not in T: continue
    lvl,tech,text,note,eng=T[i]
    checks.append({"property_id":i,"quick_cmd":f"./check {i} --tier quick","thorough_cmd":f"./check {i} --tier thorough",
      "evidence_file":f"/verif/evidence/{i}.json","replay_cmd_template":f"./check {i} --replay {{path}}","engine":eng,
      "level_claimed":{"category":lvl,"text":text,"design_ref":f"DESIGN.md §7 {i}"},"level_note":TB+note,"technique":tech})
commits=subprocess.run(['git','-C','/repo','log','--format=%h %s'],capture_output=True,text=True).stdout.splitlines()
hook_commits=[c.split()[0] for c in commits if c.split(' ',1)[1].startswith('verif hook')]
m={"version":1,"setup_cmd":"./setup.sh",
 "hooks":{"guard":"--cfg hpke_verif (rustc cfg, passed through RUSTFLAGS)",
  "enable":"RUSTFLAGS=\"--cfg hpke_verif\" CARGO_TARGET_DIR=/verif/target/on cargo build --release --offline in /verif/harness (and /verif/sched); /repo is a path dependency, so the current working tree is what is built",
  "baseline_off_cmd":"cd /repo && cargo test --workspace --no-fail-fast --offline","source_commits":hook_commits[::-1],"add_only":True},
 "engines":[
  {"name":"hpke-mc","path":"/verif/harness","serves_properties":sorted(T),"kind_free_text":"bounded-exhaustive enumerator (E1) and explicit-state session explorer (E2a: stateright-checked model + edge conformance, E2b: history trees) over the real API, reference model R1 in lock-step"},
 ],
 "checks":checks,
 "not_applicable":[{"property_id":p['id'],"reason":"not yet registered: its check is still being built in this session (planned exploration in DESIGN.md §7)"} for p in props if p['id'] not in T],
 "notes":"Design, bounds, findings and the seeded-change table are in DESIGN.md. known_findings.json lists genuine defects (one, fixed by /repo commit 3a7b04d). Exit codes of every command: 0 held, 1 violation (VIOLATION line printed), 2 machinery error."}
json.dump(m,open(f'{ROOT}/MANIFEST.json','w'),indent=1)
print("manifest: claimed",len(checks),"hook commits",m['hooks']['source_commits'])
