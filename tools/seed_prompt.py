#!/usr/bin/env python3
"""Prints the prompt given to an independent sub-agent that is asked to seed a property-breaking
change. The agent gets ONLY the property text and its own scratch worktree."""
import json, sys
pid = sys.argv[1]
props = {json.loads(l)['id']: json.loads(l) for l in open('/verif/properties.jsonl')}
p = props[pid]
BASE = sys.argv[2] if len(sys.argv) > 2 and not sys.argv[2].startswith("--") else "/tmp/seed"
AVOID = ""
if "--avoid" in sys.argv:
    # later rounds: one line per change already produced for this property (site, change, trigger) and nothing else
    import os
    sys.path.insert(0, os.path.dirname(os.path.abspath(__file__)))
    from seed_summaries import S
    mine = [f"  - {v[0]}: {v[1]} (needs: {v[2]})" for k, v in sorted(S.items()) if k.startswith(pid + "-")]
    AVOID = ("\n\nEarlier rounds of this exercise already produced the following changes for this property. Do NOT repeat them, "
             "and do not produce a close cousin of any of them (same site with a different constant, or the same KIND of trigger): "
             "find a different site AND a different kind of trigger - e.g. something that only shows for a particular combination of two "
             "conditions, for an unusual but legal way of calling the public API (clones, moved values, reuse of a key object, an API form "
             "nobody pairs with another), for a rare value or length class, in one feature subset or build profile only, after a long or "
             "oddly ordered history, or on one of the less used suites.\n" + "\n".join(mine))
print(f"""You are helping to evaluate a verification tool for the Rust crate `hpke` (rozbb/rust-hpke, an RFC 9180 HPKE implementation). Your job is to act as a realistic source of bugs.

You have your own scratch git worktree of the crate at {BASE}/{pid} (work ONLY inside that directory; never touch /repo or /verif, and do not read anything under /verif). Build offline only: always pass `--offline` to cargo and set `CARGO_TARGET_DIR={BASE}/{pid}/target`. A Cargo.lock is already there. There is no network.

Here is a semantic property that the crate is supposed to satisfy:

  Title: {p['title']}
  Statement: {p['statement']}
  Quantified over: {p['quantifier']['text']}

Task: produce TWO different, independent source changes (call them A and B) to the crate, each of which
  1. BREAKS this property (for at least some input / history / schedule / configuration),
  2. still compiles (default features AND `--all-features`), and
  3. still passes the crate's existing test suite: `cargo test --workspace --no-fail-fast --offline` must report the same 35 passing tests (and 1 doc test) as the unmodified tree. Run it to be sure. (With `--all-features` one test, `kat_tests::kat_test`, fails on the unmodified tree already because its vector file is empty in this sandbox; ignore that one.)
Prefer changes that look like plausible refactoring slips, optimisations or merge accidents, and that need something SPECIFIC to manifest - a particular multi-step sequence of operations, an unusual input shape or length, a particular ciphersuite or mode that the existing tests do not use, a boundary value, a particular thread interleaving, or two cooperating sites that each look fine alone - NOT ones that ordinary use would expose at once (those are caught by the existing tests anyway). A and B should break the property in different ways / at different sites.

For each change also write a demonstration: a small integration test file (e.g. `tests/seed_demo_a.rs`, using only the crate's public API; it may also use the `cfg(hpke_verif)` hooks that exist in the tree, e.g. `verif_set_seq`, if built with `RUSTFLAGS="--cfg hpke_verif"`) or an example program, that FAILS with the change applied and PASSES on the unmodified tree. Verify both directions yourself.

Deliverables, all inside {BASE}/{pid}/_seed/ :
  - A/patch.diff : output of `git diff` for change A ONLY against the worktree's HEAD, touching only files under src/ (or Cargo.toml) - NOT the demo file. It must apply with `git apply` to a clean checkout of the same commit.
  - A/demo.rs (the demonstration test/example source) and A/notes.md saying: what the change is, what exactly it needs in order to manifest, the exact commands you ran (tests, demo with and without the change) and their results.
  - the same under B/.
When you are done leave the worktree's tracked files unmodified (git checkout -- . ; remove any demo files you put in tests/ or examples/), keep only _seed/, and delete {BASE}/{pid}/target to free disk space.
Your final message should be a short summary (a few lines per change). Do not spend effort on anything else.""" + AVOID)
