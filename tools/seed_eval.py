#!/usr/bin/env python3
"""Runs the registered quick checks against each seeded change WITHOUT touching /repo or /verif:
a private mount namespace bind-mounts a patched copy of /repo over /repo and a snapshot of /verif
over /verif. Results: /tmp/mut/results/<id>.json (copy them into /verif/seeded/<id>/ afterwards).
usage: seed_eval.py [--checks C01,C02|all|own] [ids...]"""
import json, os, subprocess, sys, time, glob, shutil
MUT = os.environ.get("SEED_MUT", "/tmp/mut")
def sh(cmd, **kw): return subprocess.run(cmd, shell=isinstance(cmd, str), stdout=subprocess.PIPE, stderr=subprocess.STDOUT, text=True, **kw)
def main():
    a = sys.argv[1:]; which = "all"
    if "--checks" in a:
        i = a.index("--checks"); which = a[i + 1]; a = a[:i] + a[i + 2:]
    tier = "quick"
    if "--tier" in a:
        i = a.index("--tier"); tier = a[i + 1]; a = a[:i] + a[i + 2:]
    ids = a or sorted(os.path.basename(p) for p in glob.glob("/verif/seeded/C*-*"))
    os.makedirs(f"{MUT}/results", exist_ok=True)
    if not os.path.exists(f"{MUT}/verif") or "--resnap" in ids:
        ids = [i for i in ids if i != "--resnap"]
        print("[seed_eval] snapshotting /verif ...", flush=True)
        sh(f"rsync -a --delete /verif/ {MUT}/verif/")
    allchecks = [c["property_id"] for c in json.load(open(f"{MUT}/verif/MANIFEST.json"))["checks"]]
    for sid in ids:
        prop = sid.split("-")[0]
        if not prop.startswith("C"):
            prop = allchecks[0]
        checks = allchecks if which == "all" else ([prop] if which == "own" else which.split(","))
        checks = [prop] + [c for c in checks if c != prop] if prop in checks else checks
        sh(f"rsync -a --delete --exclude target /repo/ {MUT}/repo/")
        pdir = f"/verif/seeded/{sid}" if os.path.isdir(f"/verif/seeded/{sid}") else f"/verif/benign/{sid}"
        r = sh(["git", "-C", f"{MUT}/repo", "apply", f"{pdir}/patch.diff"])
        if r.returncode != 0:
            print(sid, "PATCH DOES NOT APPLY", r.stdout[-300:]); continue
        out = {"id": sid, "tier": tier, "checks": {}}
        for c in checks:
            t = time.time()
            script = f"mount --bind {MUT}/repo /repo && mount --bind {MUT}/verif /verif && cd /verif && timeout 1500 ./check {c} --tier {tier}"
            r = sh(["unshare", "-m", "bash", "-c", script])
            viol = [l for l in r.stdout.splitlines() if l.startswith("VIOLATION")]
            detail = [l.strip() for l in r.stdout.splitlines() if l.startswith("  ") and "part" not in l[:8]][:4]
            first = ""
            lines = r.stdout.splitlines()
            for i, l in enumerate(lines):
                if l.startswith("VIOLATION") and i + 1 < len(lines):
                    first = lines[i + 1].strip()[:500]; break
            out["checks"][c] = {"exit": r.returncode, "violations": len(viol), "first": first, "wall_s": round(time.time() - t, 1),
                                "machinery": [l for l in r.stdout.splitlines() if "MACHINERY-ERROR" in l][:3]}
            print(f"{sid} {c}: exit {r.returncode} violations {len(viol)} ({time.time()-t:.0f}s) {first[:160]}", flush=True)
        json.dump(out, open(f"{MUT}/results/{sid}.{tier}.json", "w"), indent=1)
if __name__ == "__main__":
    main()
