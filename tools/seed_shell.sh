#!/bin/bash
# usage: seed_shell.sh <seed id> <command...>   - runs the command with the seeded change applied to a private
# copy of /repo (bind-mounted over /repo) and a snapshot of /verif (bind-mounted over /verif)
set -e
id=$1; shift
MUT=${SEED_MUT:-/tmp/mut2}
mkdir -p $MUT
[ -d $MUT/verif ] || rsync -a --delete /verif/ $MUT/verif/
rsync -a --delete --exclude target /repo/ $MUT/repo/
git -C $MUT/repo apply /verif/seeded/$id/patch.diff
unshare -m bash -c "mount --bind $MUT/repo /repo && mount --bind $MUT/verif /verif && cd /verif && $*"
