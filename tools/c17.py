#!/usr/bin/env python3
"""E4 - configuration explorer for C17: enumerates the feature lattice of /repo/Cargo.toml and drives
cargo for every subset. usage: c17.py --tier quick|thorough [--warm]
exit 0 held / 1 violation / 2 machinery error"""
import itertools, json, os, re, subprocess, sys, time
from concurrent.futures import ThreadPoolExecutor

ROOT = "/verif"
REPO = os.environ.get("HPKE_REPO", "/repo")
NWORK = 8
KEMS = {"x25519": "X25519", "p256": "P256", "p384": "P384", "p521": "P521"}


def features():
    """the [features] table of /repo/Cargo.toml, without `default`"""
    txt = open(os.path.join(REPO, "Cargo.toml")).read()
    m = re.search(r"^\[features\]\s*$(.*?)^\[", txt, re.S | re.M)
    if not m:
        raise RuntimeError("no [features] table")
    feats = []
    for line in m.group(1).splitlines():
        mm = re.match(r"^\s*([A-Za-z0-9_-]+)\s*=", line)
        if mm and mm.group(1) != "default":
            feats.append(mm.group(1))
    return feats


def run(cmd, cwd, tdir, guard=False, timeout=900):
    env = dict(os.environ, CARGO_NET_OFFLINE="true", CARGO_TARGET_DIR=tdir, RUSTFLAGS="--cfg hpke_verif" if guard else "", CARGO_TERM_COLOR="never")
    try:
        p = subprocess.run(cmd, cwd=cwd, env=env, stdout=subprocess.PIPE, stderr=subprocess.PIPE, text=True, timeout=timeout)
        return p.returncode, p.stdout, p.stderr
    except subprocess.TimeoutExpired:
        return 124, "", "timeout"


def fl(subset):
    return ["--no-default-features"] + (["--features", ",".join(subset)] if subset else [])


class Result:
    def __init__(self):
        self.viol = []      # (key, message, log)
        self.evals = 0
        self.nontrivial = set()
        self.samples = []
        self.mach = []
        self.outcomes = {}

    def v(self, key, msg, log=""):
        self.viol.append((key, msg, log))

    def oc(self, k):
        self.outcomes[k] = self.outcomes.get(k, 0) + 1


def do_subset(subset, tdir, expect_lines, steps, res, guard=False):
    name = ",".join(subset) or "(none)"
    tag = ("guard-on:" if guard else "") + name
    has_alloc = "alloc" in subset or "std" in subset
    if "check" in steps:
        rc, out, err = run(["cargo", "check", "--lib", "--offline"] + fl(subset), REPO, tdir, guard)
        res.evals += 1
        res.oc("check-ok" if rc == 0 else "check-FAIL")
        if rc != 0:
            res.v("check:" + tag, f"feature subset [{tag}]: `cargo check --lib` fails", err[-3000:])
            return
        warn = [l for l in err.splitlines() if l.startswith("warning: unused") or l.startswith("warning: function") or "never used" in l]
        if warn:
            res.oc("check-warnings")
    if "test" in steps:
        rc, out, err = run(["cargo", "test", "--lib", "--offline"] + fl(subset) + ["--", "--skip", "kat_test"], REPO, tdir, guard)
        res.evals += 1
        m = re.search(r"test result: (\w+)\. (\d+) passed; (\d+) failed", out)
        if rc != 0 or not m or m.group(1) != "ok":
            failed = [l for l in out.splitlines() if l.endswith("FAILED") or l.startswith("---- ")][:12]
            res.v("test:" + tag, f"feature subset [{tag}]: the crate's own tests fail: {failed or err[-400:]}", out[-3000:] + err[-3000:])
            res.oc("test-FAIL")
        else:
            res.oc("test-ok")
            res.nontrivial.add("test:" + tag)
            if len(res.samples) < 6:
                res.samples.append({"subset": name, "step": "cargo test --lib -- --skip kat_test", "passed": int(m.group(2))})
    if "probe" in steps:
        # in-place API present and same outputs
        rc, out, err = run(["cargo", "run", "--offline", "--quiet", "--bin", "inplace"] + fl(subset), os.path.join(ROOT, "probes"), tdir, guard)
        res.evals += 1
        if rc != 0:
            res.v("inplace:" + tag, f"feature subset [{tag}]: a program using only the in-place API does not build/run", err[-3000:])
            res.oc("inplace-FAIL")
        else:
            got = [l for l in out.splitlines() if l and not l.startswith("error-display") and l != "guard on"]
            want = [l for l in expect_lines if any(l.startswith(KEMS[f] + " ") for f in subset if f in KEMS)]
            if got != want:
                diff = [f"got  {g[:150]}\nwant {w[:150]}" for g, w in zip(got, want) if g != w][:3]
                res.v("outputs:" + tag, f"feature subset [{tag}]: outputs differ from the full feature set / R1 ({len(got)} vs {len(want)} lines)", "\n".join(diff))
                res.oc("outputs-DIFFER")
            else:
                res.oc("outputs-same")
                if want:
                    res.nontrivial.add("outputs:" + tag)
            if not any(l.startswith("error-display Incorrect input length") for l in out.splitlines()):
                res.v("display:" + tag, f"feature subset [{tag}]: HpkeError Display output missing/changed", out[-500:])
            if guard != ("guard on" in out.splitlines()):
                res.mach.append(f"guard flag not effective for [{tag}]")
        # C16 in every subset: contexts wipe their secrets on drop (the secrets to look for come from R1)
        if any(f in KEMS for f in subset):
            rc, out, err = run(["cargo", "run", "--offline", "--quiet", "--bin", "wipe"] + fl(subset), os.path.join(ROOT, "probes"), tdir, guard)
            res.evals += 1
            if rc != 0 or "wipe probe ran" not in out:
                res.v("wipe-run:" + tag, f"feature subset [{tag}]: the drop probe does not build/run", (out + err)[-3000:])
            elif " false" in out:
                bad = [l for l in out.splitlines() if l.endswith(" false")]
                key = "wipe-vacuous:" if any("live contexts" in l for l in bad) and not any("dropped" in l for l in bad) else "wipe:"
                if key == "wipe-vacuous:":
                    res.mach.append(f"drop probe cannot see R1's secrets in live contexts for [{tag}]: " + "; ".join(bad))
                else:
                    res.v(key + tag, f"feature subset [{tag}]: a dropped context still holds the exporter secret or the base nonce: " + "; ".join(bad), out)
                res.oc("wipe-FAIL")
            else:
                res.oc("wipe-ok")
                res.nontrivial.add("wipe:" + tag)
        # allocating API exactly when alloc or std
        rc, out, err = run(["cargo", "build", "--offline", "--bin", "alloc_api"] + fl(subset), os.path.join(ROOT, "probes"), tdir, guard)
        res.evals += 1
        if has_alloc:
            if rc != 0:
                res.v("alloc-missing:" + tag, f"feature subset [{tag}]: the allocating API (seal/open/single_shot_seal/single_shot_open) is not available although alloc or std is enabled", err[-3000:])
                res.oc("alloc-MISSING")
            else:
                rc2, out2, err2 = run([os.path.join(tdir, "debug", "alloc_api")], ROOT, tdir)
                if rc2 != 0 or "alloc api present" not in out2 or "false" in out2:
                    res.v("alloc-run:" + tag, f"feature subset [{tag}]: allocating API misbehaves: {out2[-300:]} {err2[-300:]}", out2 + err2)
                res.oc("alloc-present")
                res.nontrivial.add("alloc:" + tag)
        else:
            names = ("seal", "open", "single_shot_seal", "single_shot_open")
            if rc == 0:
                res.v("alloc-present:" + tag, f"feature subset [{tag}]: the allocating API is present although neither alloc nor std is enabled", "")
                res.oc("alloc-UNEXPECTED")
            elif not (re.search(r"error\[E0(599|425|432|433)\]", err) and any(n in err for n in names)):
                res.v("alloc-other:" + tag, f"feature subset [{tag}]: the alloc probe fails for another reason than the missing allocating API", err[-3000:])
            else:
                res.oc("alloc-absent")
                res.nontrivial.add("noalloc:" + tag)


def guard_hygiene(res):
    """the guard must be purely additive: only `#[cfg(hpke_verif)]` attributes (and src/verif.rs)"""
    bad = []
    for dp, _, fs in os.walk(os.path.join(REPO, "src")):
        for f in fs:
            if not f.endswith(".rs"):
                continue
            p = os.path.join(dp, f)
            for i, line in enumerate(open(p, errors="replace").read().splitlines(), 1):
                if "hpke_verif" in line:
                    s = line.strip()
                    # the only accepted form is the plain attribute `#[cfg(hpke_verif)]` (anywhere on the line);
                    # cfg(not(..)), cfg!(..), cfg_attr(..) or combinations would make guard-off code depend on the guard
                    ok = "hpke_verif" not in s.replace("#[cfg(hpke_verif)]", "") or s.startswith("//") or p.endswith("src/verif.rs")
                    if not ok:
                        bad.append(f"{os.path.relpath(p, REPO)}:{i}: {s}")
    # what a guard attribute may be attached to: a scheduling point, a ledger line, the hook module, or an impl block
    # whose only members are verif_* functions - nothing of the library proper. And the other way round: nothing that
    # mentions the hook module or a verif_* function may exist outside such a guarded construct
    import re
    allowed_stmt = re.compile(r"^(crate::verif::point\(\d+\);|crate::verif::record_drop\(crate::verif::KIND_[A-Z_]+, [^;{}]*\);|pub mod verif;)$")
    misuse = []
    for dp, _, fs in os.walk(os.path.join(REPO, "src")):
        for f in fs:
            p = os.path.join(dp, f)
            if not f.endswith(".rs") or p.endswith("src/verif.rs"):
                continue
            lines = open(p, errors="replace").read().splitlines()
            covered = set()
            for i, line in enumerate(lines):
                if line.strip() != "#[cfg(hpke_verif)]":
                    t = line.strip()
                    if t.startswith("#[cfg(hpke_verif)]") and allowed_stmt.match(t[len("#[cfg(hpke_verif)]"):].strip()):
                        covered.add(i)      # attribute and hook statement on one line
                    elif "#[cfg(hpke_verif)]" in line and not t.startswith("//"):
                        misuse.append(f"{os.path.relpath(p, REPO)}:{i+1}: guard attribute shares a line with library code: {t}")
                    continue
                covered.add(i)
                j = i + 1
                while j < len(lines) and (not lines[j].strip() or lines[j].strip().startswith("//")):
                    covered.add(j)
                    j += 1
                nxt = lines[j].strip() if j < len(lines) else ""
                if allowed_stmt.match(nxt):
                    covered.add(j)
                elif nxt.startswith("impl") and nxt.endswith("{"):
                    indent = len(lines[j]) - len(lines[j].lstrip())
                    k = j + 1
                    while k < len(lines) and not (lines[k].startswith(" " * indent + "}") and len(lines[k].rstrip()) == indent + 1):
                        k += 1
                    body = lines[j:k + 1]
                    fns = re.findall(r"\bfn\s+(\w+)", "\n".join(body))
                    if not fns or any(not n.startswith("verif_") for n in fns):
                        misuse.append(f"{os.path.relpath(p, REPO)}:{j+1}: guarded impl block defines something other than verif_* functions: {fns}")
                    covered.update(range(j, k + 1))
                else:
                    misuse.append(f"{os.path.relpath(p, REPO)}:{j+1}: the guard is attached to library code, which therefore exists only in guard-on builds: {nxt[:120]}")
            for i, line in enumerate(lines):
                t = line.strip()
                if i in covered or t.startswith("//"):
                    continue
                if re.search(r"\bverif_\w+|\bverif::|\bmod\s+verif\b", t):
                    misuse.append(f"{os.path.relpath(p, REPO)}:{i+1}: hook code outside a `#[cfg(hpke_verif)]` construct (it is part of guard-off builds): {t[:120]}")
    res.evals += 1
    res.nontrivial.add("guard-attachment-scan")
    if misuse:
        res.v("guard-attachment", "with the verification guard off the crate is not unchanged: " + "; ".join(misuse[:4]), "\n".join(misuse))
    res.evals += 1
    if bad:
        res.v("guard-form", "the verification guard is used in a form other than a plain `#[cfg(hpke_verif)]` attribute, so guard-off and guard-on builds may differ in behaviour: " + "; ".join(bad[:5]), "\n".join(bad))
    m = json.load(open(os.path.join(ROOT, "MANIFEST.json")))
    for c in m["hooks"].get("source_commits", []):
        p = subprocess.run(["git", "-C", REPO, "show", "--numstat", "--format=", c], capture_output=True, text=True)
        res.evals += 1
        if p.returncode != 0:
            res.mach.append(f"hook commit {c} not found in /repo")
            continue
        for l in p.stdout.splitlines():
            parts = l.split()
            if len(parts) == 3 and parts[1] != "0":
                res.v("hook-deletes:" + c, f"hook commit {c} deletes/rewrites lines in {parts[2]} (hooks must only add)", l)
        res.nontrivial.add("hook:" + c)


def main():
    tier = "quick"
    a = sys.argv[1:]
    if "--tier" in a:
        tier = a[a.index("--tier") + 1]
    warm = "--warm" in a
    t0 = time.time()
    feats = features()
    subsets = [tuple(f for f in feats if f in s) for r in range(len(feats) + 1) for s in itertools.combinations(feats, r)]
    full = tuple(feats)
    dflt = tuple(f for f in feats if f in ("alloc", "p256", "x25519"))
    res = Result()
    # R1's transcript
    exe = os.path.join(ROOT, "target", "on", "release", "hpke-mc")
    p = subprocess.run([exe, "C17-expect"], capture_output=True, text=True)
    if p.returncode != 0 or not p.stdout.strip():
        print("MACHINERY-ERROR cannot get R1's transcript (hpke-mc C17-expect)", file=sys.stderr)
        return 2
    expect_lines = [l for l in p.stdout.splitlines() if not l.startswith("#wipe ")]
    os.environ["C17_WIPE_SECRETS"] = ";".join(l[6:] for l in p.stdout.splitlines() if l.startswith("#wipe "))
    if tier == "thorough":
        heavy = set(subsets)
    else:
        singles = [(), ("alloc",), ("std",)] + [(k,) for k in KEMS if k in feats] + [("std", "x25519"), ("p384", "alloc"), ("std", "p521"), dflt, full]
        heavy = set(tuple(f for f in feats if f in s) for s in singles)
    tdirs = [os.path.join(ROOT, "target", f"c17w{i}") for i in range(NWORK)]
    if warm:
        # build the dependencies once per worker directory
        def w(i):
            do_subset(full, tdirs[i], expect_lines, ["check", "test", "probe"], Result())
        with ThreadPoolExecutor(NWORK) as ex:
            list(ex.map(w, range(NWORK)))
        do_subset(full, os.path.join(ROOT, "target", "c17g"), expect_lines, ["check", "test", "probe"], Result(), guard=True)
        for cmd in (["cargo", "check", "--offline", "--examples"], ["cargo", "check", "--offline", "--example", "agility", "--all-features"], ["cargo", "check", "--offline", "--benches", "--all-features"], ["cargo", "test", "--offline", "--doc", "--no-run"]):
            run(cmd, REPO, os.path.join(ROOT, "target", "c17x"))
        print(f"[c17] warmed {NWORK}+1 target dirs in {time.time()-t0:.0f}s", file=sys.stderr)
        return 0
    order = sorted(subsets, key=lambda s: (s not in heavy, len(s)))
    chunks = [order[i::NWORK] for i in range(NWORK)]
    results = [Result() for _ in range(NWORK)]

    def work(i):
        for s in chunks[i]:
            # every subset: the library compiles (implied by the probe build), the in-place probe runs and prints
            # the full-feature-set / R1 transcript, the allocating API is present iff alloc or std;
            # heavy subsets additionally run the crate's own tests
            steps = ["probe"] + (["check", "test"] if s in heavy else [])
            do_subset(s, tdirs[i], expect_lines, steps, results[i])
    g = os.path.join(ROOT, "target", "c17g")
    gres = Result()
    xres = Result()

    def guard_task():
        # guard on: full and default sets, plus std-without-alloc and a no-alloc set (the probes have guard-on-only
        # sections that need the hooks: the end of the sequence space through the allocating forms)
        extra_sets = [tuple(f for f in feats if f in ("std", "x25519")), tuple(f for f in feats if f in ("x25519",))]
        if tier == "thorough":
            extra_sets += [tuple(f for f in feats if f in ("std", "p256", "p384")), tuple(f for f in feats if f in ("alloc", "p521"))]
        for s in (full, dflt):
            do_subset(s, g, expect_lines, ["check", "probe"] + (["test"] if tier == "thorough" or s == dflt else []), gres, guard=True)
        for s in extra_sets:
            do_subset(s, g, expect_lines, ["probe"], gres, guard=True)

    def extra_task():
        x = os.path.join(ROOT, "target", "c17x")
        extra = [(["cargo", "check", "--offline", "--examples"], "examples under default features (client_server)"),
                 (["cargo", "check", "--offline", "--example", "agility", "--all-features"], "example agility under its required features"),
                 (["cargo", "check", "--offline", "--example", "client_server", "--no-default-features", "--features", "x25519,alloc"], "example client_server under x25519,alloc")]
        # the release profile (no debug assertions): code that only exists under cfg(debug_assertions) must not be needed there
        extra.append((["cargo", "check", "--offline", "--release", "--lib"], "the library in the release profile, default features"))
        extra.append((["cargo", "check", "--offline", "--release", "--lib", "--all-features"], "the library in the release profile, all features"))
        extra.append((["cargo", "check", "--offline", "--release", "--lib", "--no-default-features", "--features", "x25519"], "the library in the release profile, x25519 only"))
        extra.append((["cargo", "check", "--offline", "--benches", "--all-features"], "benches under all features"))
        extra.append((["cargo", "check", "--offline", "--release", "--benches", "--all-features"], "benches under all features in the release profile (the profile they are run in)"))
        if tier == "thorough":
            extra.append((["cargo", "test", "--offline", "--doc"], "doc tests under default features"))
        for cmd, what in extra:
            rc, out, err = run(cmd, REPO, x)
            xres.evals += 1
            if rc != 0:
                xres.v("target:" + what, f"{what}: does not build", err[-3000:])
            else:
                xres.nontrivial.add("target:" + what)

    with ThreadPoolExecutor(NWORK + 2) as ex:
        futs = [ex.submit(work, i) for i in range(NWORK)] + [ex.submit(guard_task), ex.submit(extra_task)]
        for f in futs:
            f.result()
    for r in results + [gres, xres]:
        res.viol += r.viol; res.evals += r.evals; res.nontrivial |= r.nontrivial; res.samples += r.samples; res.mach += r.mach
        for k, v in r.outcomes.items():
            res.outcomes[k] = res.outcomes.get(k, 0) + v
    guard_hygiene(res)
    # verdict
    known = [f for f in json.load(open(os.path.join(ROOT, "known_findings.json")))["findings"] if f["property"] == "C17" and f["status"] == "known"]
    nviol = 0
    rdir = os.path.join(ROOT, "replays", "C17")
    for key, msg, log in res.viol:
        kf = [f for f in known if f["key"] == key]
        if kf:
            print(f"KNOWN-FINDING: property=C17 {kf[0]['what']}")
            continue
        nviol += 1
        if nviol <= 25:
            os.makedirs(rdir, exist_ok=True)
            path = os.path.join(rdir, re.sub(r"[^A-Za-z0-9]+", "_", key)[:80] + ".json")
            json.dump({"property": "C17", "key": key, "message": msg, "log": log, "reproduce": "see tools/c17.py: cargo check/test/run with --no-default-features --features <subset>"}, open(path, "w"), indent=1)
            print(f"VIOLATION property=C17 replay={path}")
            print("  " + msg[:400])
    for m in res.mach:
        print("MACHINERY-ERROR " + m, file=sys.stderr)
    ev = {"property_id": "C17", "tier": tier, "seed": int(os.environ.get("VERIF_SEED", "0")), "level": "exploration",
          "coverage": {"evaluations": res.evals, "distinct_nontrivial": len(res.nontrivial),
                       "rule": "every subset of the [features] table of Cargo.toml is enumerated (complete lattice); per subset a probe crate is built against the library with exactly that subset (so the library compiles), the probe uses only the in-place API and its scripted transcript per enabled KEM must equal the full-feature-set / R1 transcript, and a second probe of the allocating API must compile iff alloc or std is on; for the heavy subsets (all of them in the thorough tier) also `cargo check --lib` on its own and the crate's own tests (kat_test skipped: its vector file is a 0-byte stub in this tree); guard on for the full and default sets, guard additivity scan, examples/benches; non-trivial = a (subset, step) whose outcome was compared (tests ran, transcript non-empty, alloc presence/absence confirmed)",
                       "samples": res.samples[:6] + [{"subset": ",".join(s) or "(none)", "steps": "probe" + ("+check+test" if s in heavy else "")} for s in order[:2] + order[-2:]],
                       "exhaustive": True, "feature_subsets": len(subsets), "subsets_with_probes": len(subsets), "subsets_with_crate_tests": len(heavy), "features": feats,
                       "distinct_outcomes": len(res.outcomes), "outcomes": res.outcomes, "machinery_errors": len(res.mach)},
          "assumptions": ["cargo and rustc resolve features as documented; kat_tests::kat_test is skipped because its vector file is empty in this sandbox", "guard-on behaviour is compared on the full and default sets and on two (thorough: four) further subsets only"],
          "wall_s": round(time.time() - t0, 2), "violations": nviol}
    os.makedirs(os.path.join(ROOT, "evidence"), exist_ok=True)
    json.dump(ev, open(os.path.join(ROOT, "evidence", "C17.json"), "w"), indent=1)
    print(f"property=C17 tier={tier} subsets={len(subsets)} heavy={len(heavy)} evaluations={res.evals} outcomes={res.outcomes} violations={nviol} wall={time.time()-t0:.1f}s")
    if nviol:
        return 1
    return 2 if res.mach else 0


if __name__ == "__main__":
    sys.exit(main())
