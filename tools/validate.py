#!/usr/bin/env python3
"""Validates MANIFEST.json and every evidence file against the schemas (run with python3-vt)."""
import json, sys, glob, jsonschema
ms=json.load(open('/root/.vp/MANIFEST.schema.json')); es=json.load(open('/root/.vp/EVIDENCE.schema.json'))
m=json.load(open('/verif/MANIFEST.json')); jsonschema.validate(m,ms)
ids={json.loads(l)['id'] for l in open('/verif/properties.jsonl')}
claimed={c['property_id'] for c in m['checks']}; na={c['property_id'] for c in m.get('not_applicable',[])}
assert claimed|na==ids and not (claimed&na), (ids-claimed-na, claimed&na)
bad=0
for c in m['checks']:
    try:
        jsonschema.validate(json.load(open(c['evidence_file'])),es)
    except Exception as e:
        bad+=1; print("EVIDENCE PROBLEM",c['property_id'],str(e)[:300])
print("manifest ok; claimed",len(claimed),"n/a",len(na),"evidence problems",bad)
