"""Recomputes, from the curve equation alone, the u-coordinates of the points of order dividing 8 on
Curve25519 and its twist, and from them the 32-byte encodings whose X25519 output is zero for every
(clamped, hence multiple-of-8) scalar."""
from prims import P25519 as P
A = 486662
def xdbl(u):
    """u-coordinate of 2*Q for a point with u-coordinate u (None = point at infinity)"""
    den = 4 * u * (u * u + A * u + 1) % P
    if den == 0: return None
    return (u * u - 1) ** 2 * pow(den, P - 2, P) % P
def order_divides_8(u):
    for _ in range(3):
        if u is None: return True
        u = xdbl(u)
    return u is None
def sqrt_mod(a):
    # p = 5 mod 8
    a %= P
    if a == 0: return 0
    r = pow(a, (P + 3) // 8, P)
    if r * r % P == a: return r
    r = r * pow(2, (P - 1) // 4, P) % P
    return r if r * r % P == a else None
def small_order_u():
    # order 1/2: u = infinity / 0 ; order 4: 2Q = (0,0) <=> (u^2-1)^2 = 0 <=> u = +-1 ;
    # order 8: 2Q has u = +-1: (u^2-1)^2 = +-4u(u^2+Au+1). Solve both quartics by factoring as quadratics in
    # t = u + 1/u:  (u - 1/u)^2 = +-4 (u + 1/u + A)  with (u-1/u)^2 = t^2 - 4
    us = {0, 1, P - 1}
    for sign in (1, -1):
        # t^2 - 4 = sign*4*(t + A)  ->  t^2 - sign*4 t - 4 - sign*4A = 0
        b = -sign * 4; c = -4 - sign * 4 * A
        disc = sqrt_mod(b * b - 4 * c)
        if disc is None: continue
        for d in (disc, -disc):
            t = (-b + d) * pow(2, P - 2, P) % P
            # u^2 - t u + 1 = 0
            dd = sqrt_mod(t * t - 4)
            if dd is None: continue
            for e in (dd, -dd):
                us.add((t + e) * pow(2, P - 2, P) % P)
    return sorted(u for u in us if order_divides_8(u))
def encodings():
    out = []
    for u in small_order_u():
        reps = [u] + ([u + P] if u + P < 2 ** 255 else [])
        for r in reps:
            for hb in (0, 1):
                out.append((r | (hb << 255)).to_bytes(32, 'little'))
    return sorted(set(out))
if __name__ == "__main__":
    for e in encodings(): print(e.hex())
