"""R2 primitives - pure Python 3, standard library only (hashlib / hmac / int).
X25519 ladder, short-Weierstrass arithmetic for P-256/384/521, AES + GCM, ChaCha20 + Poly1305, HKDF.
Nothing here shares code with the Rust dependency tree. Constants are validated by anchors.py."""
import hashlib, hmac, struct

# ---------------------------------------------------------------- HKDF (RFC 5869)
def hk_extract(h, salt, ikm):
    if not salt:
        salt = b"\0" * hashlib.new(h).digest_size
    return hmac.new(salt, ikm, h).digest()

def hk_expand(h, prk, info, L):
    assert L <= 255 * hashlib.new(h).digest_size
    out = b""; t = b""; i = 1
    while len(out) < L:
        t = hmac.new(prk, t + info + bytes([i]), h).digest(); out += t; i += 1
    return out[:L]

# ---------------------------------------------------------------- X25519 (RFC 7748)
P25519 = 2**255 - 19
def x25519(k, u):
    k = bytearray(k); k[0] &= 248; k[31] &= 127; k[31] |= 64; k = int.from_bytes(k, 'little')
    u = int.from_bytes(u, 'little') & ((1 << 255) - 1)
    P = P25519
    x1 = u; x2 = 1; z2 = 0; x3 = u; z3 = 1; swap = 0
    for t in range(254, -1, -1):
        kt = (k >> t) & 1; swap ^= kt
        if swap: x2, x3 = x3, x2; z2, z3 = z3, z2
        swap = kt
        A = (x2 + z2) % P; AA = A * A % P; B = (x2 - z2) % P; BB = B * B % P; E = (AA - BB) % P
        C = (x3 + z3) % P; D = (x3 - z3) % P; DA = D * A % P; CB = C * B % P
        x3 = (DA + CB) ** 2 % P; z3 = x1 * (DA - CB) ** 2 % P; x2 = AA * BB % P; z2 = E * (AA + 121665 * E) % P
    if swap: x2, x3 = x3, x2; z2, z3 = z3, z2
    return (x2 * pow(z2, P - 2, P) % P).to_bytes(32, 'little')
X25519_G = (9).to_bytes(32, 'little')

# ---------------------------------------------------------------- NIST curves
CURVES = {
 'p256': dict(p=2**256 - 2**224 + 2**192 + 2**96 - 1,
    b=0x5ac635d8aa3a93e7b3ebbd55769886bc651d06b0cc53b0f63bce3c3e27d2604b,
    n=0xffffffff00000000ffffffffffffffffbce6faada7179e84f3b9cac2fc632551,
    gx=0x6b17d1f2e12c4247f8bce6e563a440f277037d812deb33a0f4a13945d898c296,
    gy=0x4fe342e2fe1a7f9b8ee7eb4a7c0f9e162bce33576b315ececbb6406837bf51f5, l=32),
 'p384': dict(p=2**384 - 2**128 - 2**96 + 2**32 - 1,
    b=0xb3312fa7e23ee7e4988e056be3f82d19181d9c6efe8141120314088f5013875ac656398d8a2ed19d2a85c8edd3ec2aef,
    n=0xffffffffffffffffffffffffffffffffffffffffffffffffc7634d81f4372ddf581a0db248b0a77aecec196accc52973,
    gx=0xaa87ca22be8b05378eb1c71ef320ad746e1d3b628ba79b9859f741e082542a385502f25dbf55296c3a545e3872760ab7,
    gy=0x3617de4a96262c6f5d9e98bf9292dc29f8f41dbd289a147ce9da3113b5f0b8c00a60b1ce1d7e819d7a431d7c90ea0e5f, l=48),
 'p521': dict(p=2**521 - 1,
    b=0x0051953eb9618e1c9a1f929a21a0b68540eea2da725b99b315f3b8b489918ef109e156193951ec7e937b1652c0bd3bb1bf073573df883d2c34f1ef451fd46b503f00,
    n=int("01" + "ff" * 32 + "fa51868783bf2f966b7fcc0148f709a5d03bb5c9b8899c47aebb6fb71e91386409", 16),
    gx=0x00c6858e06b70404e9cd9e3ecb662395b4429c648139053fb521f828af606b4d3dbaa14b5e77efe75928fe1dc127a2ffa8de3348b3c1856a429bf97e7e31c2e5bd66,
    gy=0x011839296a789a3bc0045c8a5fb42c7d1bd998f54449579b446817afbd17273e662c97ee72995ef42640c550b9013fad0761353c7086a272c24088be94769fd16650, l=66)}

def _jdbl(Pt, p):
    X, Y, Z = Pt
    if Y == 0 or Z == 0: return (0, 1, 0)
    S = 4 * X * Y * Y % p; M = (3 * (X - Z * Z) * (X + Z * Z)) % p   # a = -3
    X2 = (M * M - 2 * S) % p; Y2 = (M * (S - X2) - 8 * pow(Y, 4, p)) % p; Z2 = 2 * Y * Z % p
    return (X2, Y2, Z2)
def _jadd(Pt, Q, p):
    if Pt[2] == 0: return Q
    if Q[2] == 0: return Pt
    X1, Y1, Z1 = Pt; X2, Y2, Z2 = Q
    U1 = X1 * Z2 * Z2 % p; U2 = X2 * Z1 * Z1 % p; S1 = Y1 * pow(Z2, 3, p) % p; S2 = Y2 * pow(Z1, 3, p) % p
    if U1 == U2: return _jdbl(Pt, p) if S1 == S2 else (0, 1, 0)
    H = (U2 - U1) % p; R = (S2 - S1) % p; H2 = H * H % p; H3 = H * H2 % p
    X3 = (R * R - H3 - 2 * U1 * H2) % p; Y3 = (R * (U1 * H2 - X3) - S1 * H3) % p; Z3 = H * Z1 * Z2 % p
    return (X3, Y3, Z3)
def ec_mul(k, Pt, c):
    """k * Pt (affine in, affine out; None = point at infinity)"""
    p = c['p']; R = (0, 1, 0); Q = (Pt[0], Pt[1], 1)
    for bit in bin(k)[2:]:
        R = _jdbl(R, p)
        if bit == '1': R = _jadd(R, Q, p)
    if R[2] == 0: return None
    zi = pow(R[2], p - 2, p); return (R[0] * zi * zi % p, R[1] * zi * zi * zi % p)
def ec_oncurve(x, y, c):
    p = c['p']; return 0 <= x < p and 0 <= y < p and (y * y - (x * x * x - 3 * x + c['b'])) % p == 0

def sec1_decode_valid(enc, c):
    """RFC 9180 / SEC1 validity predicate for an uncompressed public key: returns (x, y) or a reason string."""
    l = c['l']
    if len(enc) != 1 + 2 * l: return 'length'
    if enc[0] != 4: return 'tag'
    x = int.from_bytes(enc[1:1 + l], 'big'); y = int.from_bytes(enc[1 + l:], 'big')
    if x >= c['p'] or y >= c['p']: return 'range'
    if not ec_oncurve(x, y, c): return 'curve'
    return (x, y)
def scalar_valid(enc, c):
    if len(enc) != c['l']: return 'length'
    k = int.from_bytes(enc, 'big')
    if k == 0 or k >= c['n']: return 'range'
    return k
def sec1_encode(Pt, c):
    return b"\x04" + Pt[0].to_bytes(c['l'], 'big') + Pt[1].to_bytes(c['l'], 'big')

# ---------------------------------------------------------------- AES + GCM
def _xt(a): return ((a << 1) ^ 0x1b) & 0xff if a & 0x80 else a << 1
SB = [0] * 256
def _init_sbox():
    p = q = 1
    while True:
        p = p ^ ((p << 1) & 0xff) ^ (0x1b if p & 0x80 else 0)
        q ^= q << 1; q ^= q << 2; q ^= q << 4; q &= 0xff
        if q & 0x80: q ^= 0x09
        x = q ^ ((q << 1 | q >> 7) & 0xff) ^ ((q << 2 | q >> 6) & 0xff) ^ ((q << 3 | q >> 5) & 0xff) ^ ((q << 4 | q >> 4) & 0xff)
        SB[p] = (x ^ 0x63) & 0xff
        if p == 1: break
    SB[0] = 0x63
_init_sbox()
def aes_expand(key):
    nk = len(key) // 4; nr = nk + 6; w = [list(key[4 * i:4 * i + 4]) for i in range(nk)]; rc = 1
    for i in range(nk, 4 * (nr + 1)):
        t = list(w[i - 1])
        if i % nk == 0:
            t = t[1:] + t[:1]; t = [SB[b] for b in t]; t[0] ^= rc; rc = _xt(rc)
        elif nk > 6 and i % nk == 4: t = [SB[b] for b in t]
        w.append([a ^ b for a, b in zip(w[i - nk], t)])
    return [sum(w[4 * r:4 * r + 4], []) for r in range(nr + 1)]
def aes_enc_block(rk, b):
    s = [x ^ y for x, y in zip(b, rk[0])]
    for r in range(1, len(rk)):
        s = [SB[x] for x in s]
        s = [s[(i + 4 * (i % 4)) % 16] for i in range(16)]
        if r < len(rk) - 1:
            o = []
            for c in range(4):
                a = s[4 * c:4 * c + 4]
                o += [_xt(a[0]) ^ _xt(a[1]) ^ a[1] ^ a[2] ^ a[3], a[0] ^ _xt(a[1]) ^ _xt(a[2]) ^ a[2] ^ a[3],
                      a[0] ^ a[1] ^ _xt(a[2]) ^ _xt(a[3]) ^ a[3], _xt(a[0]) ^ a[0] ^ a[1] ^ a[2] ^ _xt(a[3])]
            s = o
        s = [x ^ y for x, y in zip(s, rk[r])]
    return bytes(s)
def _gmul(x, y):
    z = 0; v = y
    for i in range(127, -1, -1):
        if (x >> i) & 1: z ^= v
        v = (v >> 1) ^ (0xe1 << 120) if v & 1 else v >> 1
    return z
def _ghash(h, aad, ct):
    def blocks(d): return [d[i:i + 16].ljust(16, b"\0") for i in range(0, len(d), 16)]
    y = 0
    for b in blocks(aad) + blocks(ct) + [(len(aad) * 8).to_bytes(8, 'big') + (len(ct) * 8).to_bytes(8, 'big')]:
        y = _gmul(y ^ int.from_bytes(b, 'big'), h)
    return y
def gcm_seal(key, nonce, aad, pt):
    assert len(nonce) == 12
    rk = aes_expand(key); h = int.from_bytes(aes_enc_block(rk, bytes(16)), 'big'); j0 = nonce + b"\0\0\0\1"
    ct = b""; c = 2
    for i in range(0, len(pt), 16):
        ks = aes_enc_block(rk, nonce + c.to_bytes(4, 'big')); c += 1
        ct += bytes(a ^ b for a, b in zip(pt[i:i + 16], ks))
    tag = (_ghash(h, aad, ct) ^ int.from_bytes(aes_enc_block(rk, j0), 'big')).to_bytes(16, 'big')
    return ct + tag
def gcm_open(key, nonce, aad, ct):
    if len(ct) < 16: return None
    body, tag = ct[:-16], ct[-16:]
    rk = aes_expand(key); h = int.from_bytes(aes_enc_block(rk, bytes(16)), 'big'); j0 = nonce + b"\0\0\0\1"
    want = (_ghash(h, aad, body) ^ int.from_bytes(aes_enc_block(rk, j0), 'big')).to_bytes(16, 'big')
    if not hmac.compare_digest(want, tag): return None
    pt = b""; c = 2
    for i in range(0, len(body), 16):
        ks = aes_enc_block(rk, nonce + c.to_bytes(4, 'big')); c += 1
        pt += bytes(a ^ b for a, b in zip(body[i:i + 16], ks))
    return pt

# ---------------------------------------------------------------- ChaCha20-Poly1305 (RFC 8439)
def _rotl(v, c): return ((v << c) & 0xffffffff) | (v >> (32 - c))
def _qr(s, a, b, c, d):
    s[a] = (s[a] + s[b]) & 0xffffffff; s[d] = _rotl(s[d] ^ s[a], 16); s[c] = (s[c] + s[d]) & 0xffffffff; s[b] = _rotl(s[b] ^ s[c], 12)
    s[a] = (s[a] + s[b]) & 0xffffffff; s[d] = _rotl(s[d] ^ s[a], 8); s[c] = (s[c] + s[d]) & 0xffffffff; s[b] = _rotl(s[b] ^ s[c], 7)
def chacha_block(key, ctr, nonce):
    st = [0x61707865, 0x3320646e, 0x79622d32, 0x6b206574] + list(struct.unpack("<8I", key)) + [ctr] + list(struct.unpack("<3I", nonce)); w = st[:]
    for _ in range(10):
        _qr(w, 0, 4, 8, 12); _qr(w, 1, 5, 9, 13); _qr(w, 2, 6, 10, 14); _qr(w, 3, 7, 11, 15)
        _qr(w, 0, 5, 10, 15); _qr(w, 1, 6, 11, 12); _qr(w, 2, 7, 8, 13); _qr(w, 3, 4, 9, 14)
    return struct.pack("<16I", *[(a + b) & 0xffffffff for a, b in zip(w, st)])
def _chacha(key, ctr, nonce, d):
    return bytes(x ^ y for i in range(0, len(d), 64) for x, y in zip(d[i:i + 64], chacha_block(key, ctr + i // 64, nonce)))
def _poly(key, msg):
    r = int.from_bytes(key[:16], 'little') & 0x0ffffffc0ffffffc0ffffffc0fffffff; s = int.from_bytes(key[16:], 'little'); a = 0; p = (1 << 130) - 5
    for i in range(0, len(msg), 16): a = (a + int.from_bytes(msg[i:i + 16] + b"\1", 'little')) * r % p
    return ((a + s) & ((1 << 128) - 1)).to_bytes(16, 'little')
def _pad16(d): return d + bytes(-len(d) % 16)
def chachapoly_seal(key, nonce, aad, pt):
    otk = chacha_block(key, 0, nonce)[:32]; ct = _chacha(key, 1, nonce, pt)
    return ct + _poly(otk, _pad16(aad) + _pad16(ct) + struct.pack("<QQ", len(aad), len(ct)))
def chachapoly_open(key, nonce, aad, ct):
    if len(ct) < 16: return None
    body, tag = ct[:-16], ct[-16:]
    otk = chacha_block(key, 0, nonce)[:32]
    want = _poly(otk, _pad16(aad) + _pad16(body) + struct.pack("<QQ", len(aad), len(body)))
    if not hmac.compare_digest(want, tag): return None
    return _chacha(key, 1, nonce, body)

# ---------------------------------------------------------------- helpers
def is_probable_prime(n, rounds=24):
    if n < 2: return False
    for sp in (2, 3, 5, 7, 11, 13, 17, 19, 23, 29, 31, 37):
        if n % sp == 0: return n == sp
    d = n - 1; s = 0
    while d % 2 == 0: d //= 2; s += 1
    a = 2
    for _ in range(rounds):
        a = (a * 6364136223846793005 + 1442695040888963407) % (n - 3) + 2   # deterministic bases
        x = pow(a, d, n)
        if x in (1, n - 1): continue
        for _ in range(s - 1):
            x = x * x % n
            if x == n - 1: break
        else: return False
    return True
