#!/usr/bin/env python3
"""R2 as a trace validator: recomputes, from the INPUTS of every transcript line alone, what RFC 9180
defines, and compares with what the Rust harness recorded (R1's expectation and the implementation's
output). usage: verify_transcript.py FILE [--procs N] [--max N]
exit 0 = every line reproduced; 1 = mismatch (lines printed as R2-MISMATCH ...); 2 = machinery error"""
import sys, json, os
from multiprocessing import Pool
from rfc9180 import *

def h(x): return bytes.fromhex(x)

def check_line(line):
    d = json.loads(line); bad = []
    k = d['kind']
    if k == 'derive':
        kem = Kem(d['kem']); sk, pk, _ = kem.derive_keypair(h(d['ikm']))
        isk = h(d['impl_sk'])
        if kem.name == 'x25519':
            def clamp(b): b = bytearray(b); b[0] &= 248; b[31] &= 127; b[31] |= 64; return bytes(b)
            if clamp(isk) != clamp(sk): bad.append("derive sk")
        elif isk != sk: bad.append("derive sk")
        if h(d['impl_pk']) != pk: bad.append("derive pk")
    elif k == 'encap':
        kem = Kem(d['kem']); sk_e, _, _ = kem.derive_keypair(h(d['ikm_e']))
        r = kem.encap(h(d['pk_r']), sk_e, h(d['sk_s']) if d['auth'] else None)
        if r is None: bad.append("R2 encap failed")
        else:
            ss, enc = r
            if d['impl_ss'] is None or h(d['impl_ss']) != ss: bad.append("encap shared secret")
            if d['impl_enc'] is None or h(d['impl_enc']) != enc: bad.append("encap enc")
            ds = kem.decap(enc, h(d['sk_r']), h(d['pk_s']) if d['auth'] else None)
            if ds != ss: bad.append("R2 decap != encap")
            if d['impl_decap'] is None or h(d['impl_decap']) != ss: bad.append("decap shared secret")
    elif k == 'session':
        mode = d['mode']; kem = Kem(d['kem'])
        if kem.pk(h(d['sk_r'])) != h(d['pk_r']): bad.append("pk_r != pk(sk_r) (harness key material)")
        sk_s = h(d['sk_s']) if mode in (2, 3) else None
        if sk_s is not None and kem.pk(sk_s) != h(d['pk_s']): bad.append("pk_s != pk(sk_s)")
        r = setup_s(d['kem'], d['kdf'], d['aead'], mode, h(d['pk_r']), h(d['info']), h(d['ikm_e']), h(d['psk']), h(d['psk_id']), sk_s)
        if r is None: bad.append("R2 setup_s failed")
        else:
            enc, c, ss = r
            if h(d['impl_enc']) != enc: bad.append("enc")
            rc = setup_r(d['kem'], d['kdf'], d['aead'], mode, enc, h(d['sk_r']), h(d['info']), h(d['psk']), h(d['psk_id']), h(d['pk_s']) if mode in (2, 3) else None)
            if rc is None or rc.key != c.key or rc.exporter_secret != c.exporter_secret or rc.base_nonce != c.base_nonce: bad.append("R2 receiver != R2 sender")
            for i, m in enumerate(d['msgs']):
                ct = c.seal(h(m['aad']), h(m['pt']))
                if ct != h(m['ct']): bad.append("ciphertext #%d" % i)
                if rc is not None and rc.open(h(m['aad']), h(m['ct'])) != h(m['pt']): bad.append("R2 open #%d" % i)
            for e in d['exports']:
                if c.export(h(e['ctx']), e['len']) != h(e['value']): bad.append("export L=%d" % e['len'])
        if not d.get('ok', True): bad.append("harness recorded a mismatch between R1 and the implementation for this session")
    else:
        bad.append("unknown line kind " + k)
    return (k, bad, line if bad else "")

def main():
    if len(sys.argv) < 2:
        print(__doc__); return 2
    path = sys.argv[1]; procs = os.cpu_count() or 4; mx = None
    a = sys.argv[2:]
    if '--procs' in a: procs = int(a[a.index('--procs') + 1])
    if '--max' in a: mx = int(a[a.index('--max') + 1])
    lines = [l for l in open(path).read().splitlines() if l.strip()]
    if mx: lines = lines[:mx]
    if not lines:
        print("R2: empty transcript"); return 2
    with Pool(procs) as pool:
        res = pool.map(check_line, lines, chunksize=4)
    kinds = {}; nbad = 0
    for k, bad, line in res:
        kinds[k] = kinds.get(k, 0) + 1
        if bad:
            nbad += 1
            if nbad <= 10: print("R2-MISMATCH", k, bad, line[:400])
    print(json.dumps({"r2_lines": len(lines), "r2_kinds": kinds, "r2_mismatches": nbad}))
    return 1 if nbad else 0
if __name__ == "__main__":
    sys.exit(main())
