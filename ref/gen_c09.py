#!/usr/bin/env python3
"""Generates the C09 / C12 key-encoding cases for P-256/384/521 with the verdict of R2's independent
SEC1 / scalar validity predicate (prims.sec1_decode_valid, prims.scalar_valid).
usage: gen_c09.py OUT.json [seed] [thorough]"""
import sys, json
from prims import *

def sqrt_p3mod4(a, p):
    r = pow(a, (p + 1) // 4, p)
    return r if r * r % p == a % p else None

def verdict_pk(b, c):
    r = sec1_decode_valid(b, c)
    if r == 'length': return 'length'
    return 'validation' if isinstance(r, str) else 'ok'
def verdict_sk(b, c):
    r = scalar_valid(b, c)
    if r == 'length': return 'length'
    return 'validation' if isinstance(r, str) else 'ok'

def main():
    out_path = sys.argv[1]; seed = int(sys.argv[2]) if len(sys.argv) > 2 else 0; thorough = len(sys.argv) > 3 and sys.argv[3] == 'thorough'
    cases = []
    def add(curve, kind, what, b):
        c = CURVES[curve]
        v = verdict_sk(b, c) if kind == 'sk' else verdict_pk(b, c)
        cases.append(dict(curve=curve, kind=kind, what=what, hex=b.hex(), expect=v))
    for name, c in CURVES.items():
        p, bcoef, n, l = c['p'], c['b'], c['n'], c['l']
        G = (c['gx'], c['gy'])
        # valid points: G, a seed-dependent multiple, small-x points
        k = (0x1234567 + seed * 0x9e3779b97f4a7c15) % (n - 2) + 2
        pts = [G, ec_mul(k, G, c)]
        x = 1
        while len(pts) < 4:
            y = sqrt_p3mod4((x * x * x - 3 * x + bcoef) % p, p)
            if y is not None: pts.append((x, y))
            x += 1
        def enc(x, y, tag=4): return bytes([tag]) + x.to_bytes(l, 'big') + y.to_bytes(l, 'big')
        size = 1 + 2 * l
        for kind in ('pk', 'enc'):
            for pi, (x, y) in enumerate(pts):
                v = enc(x, y)
                add(name, kind, 'valid point #%d' % pi, v)
                add(name, kind, 'valid point #%d negated (x, p-y)' % pi, enc(x, p - y))
                if pi < 2:
                    # every length 0..=2*size+2: the valid encoding truncated / zero-extended
                    for L in range(0, 2 * size + 3):
                        if L != size:
                            add(name, kind, 'valid encoding resized to %d' % L, (v + bytes(2 * size + 3))[:L])
                    # every leading tag byte over a valid (X, Y)
                    for tag in range(256):
                        if tag != 4: add(name, kind, 'tag %02x over valid X||Y' % tag, enc(x, y, tag))
                    # single-bit flips
                    step = 1 if (thorough or pi == 0 and name == 'p256') else 5
                    for bit in range(0, 8 * size, step):
                        w = bytearray(v); w[bit // 8] ^= 1 << (bit % 8)
                        add(name, kind, 'bit %d flipped' % bit, bytes(w))
                # compressed / compact / hybrid forms of a REAL point: must not be accepted
                add(name, kind, 'valid compressed encoding', bytes([2 + (y & 1)]) + x.to_bytes(l, 'big'))
                add(name, kind, 'compressed encoding, wrong parity', bytes([3 - (y & 1)]) + x.to_bytes(l, 'big'))
                add(name, kind, 'compact encoding', bytes([5]) + x.to_bytes(l, 'big'))
                add(name, kind, 'hybrid encoding', enc(x, y, 6 + (y & 1)))
                add(name, kind, 'compressed encoding zero-padded to full length', (bytes([2 + (y & 1)]) + x.to_bytes(l, 'big') + bytes(l)))
                for dx, dy in ((0, 1), (0, -1), (1, 0), (-1, 0)):
                    add(name, kind, 'point #%d with (x%+d, y%+d)' % (pi, dx, dy), enc((x + dx) % p, (y + dy) % p))
                # non-canonical coordinates in [p, 2^8l)
                if x + p < 256 ** l: add(name, kind, 'x + p (non-canonical)', enc(x + p, y))
                if y + p < 256 ** l: add(name, kind, 'y + p (non-canonical)', enc(x, y + p))
                if name == 'p521':
                    for bit in range(521, 528):
                        add(name, kind, 'x with unused top bit %d set' % bit, enc(x | (1 << bit), y))
                        add(name, kind, 'y with unused top bit %d set' % bit, enc(x, y | (1 << bit)))
            # valid points with a coordinate in the gap [n, p) between the group order and the field prime (n < p on all
            # three curves): canonical field elements, although they are not canonical scalars
            if n < p:
                found = 0
                x = n
                while found < 3 and x < p:
                    y = sqrt_p3mod4((x * x * x - 3 * x + bcoef) % p, p)
                    if y is not None:
                        add(name, kind, 'valid point with x = n + %d (in [n, p))' % (x - n), enc(x, y))
                        add(name, kind, 'valid point with x = n + %d, negated' % (x - n), enc(x, p - y))
                        found += 1
                    x += 1
                found = 0
                x = p - 1
                while found < 2 and x > n:
                    y = sqrt_p3mod4((x * x * x - 3 * x + bcoef) % p, p)
                    if y is not None:
                        add(name, kind, 'valid point with x = p - %d' % (p - x), enc(x, y))
                        found += 1
                    x -= 1
                # y in [n, p): solve the cubic is hard; search small x until y or p - y falls into the gap is hopeless (gap is
                # ~2^-128 of the field) - instead use y := the larger of (y, p - y) for the x values above (done by the negation)
            add(name, kind, '(0, 0)', enc(0, 0))
            add(name, kind, '(0, sqrt(b)) if it exists', enc(0, sqrt_p3mod4(bcoef, p) or 1))
            add(name, kind, 'identity: single 00 byte', b"\0")
            add(name, kind, 'identity padded to full length', bytes(size))
            add(name, kind, '04 || zeros', b"\x04" + bytes(2 * l))
            add(name, kind, 'all ff', b"\xff" * size)
            add(name, kind, '(p, p)', enc(p, p) if p < 256 ** l else bytes(size))
            add(name, kind, '(p-1, p-1)', enc(p - 1, p - 1))
            # points of the same field on curves with another b, and on the twist
            for (x, y) in ((5, 7), (1, 1), (2, 3), (c['gx'], (c['gy'] + 2) % p), ((c['gx'] + 1) % p, c['gy'])):
                add(name, kind, 'point on y^2=x^3-3x+b\' with b\' != b', enc(x, y))
            tw = []
            x = 2
            while len(tw) < 3:
                rhs = (x * x * x - 3 * x + bcoef) % p
                if sqrt_p3mod4(rhs, p) is None:   # no y on the curve: x belongs to the twist
                    tw.append(x)
                x += 1
            for x in tw:
                rhs = (x * x * x - 3 * x + bcoef) % p
                y = sqrt_p3mod4((-rhs) % p, p) or 1   # (x, y) with y^2 = -(x^3-3x+b): on the quadratic twist
                add(name, kind, 'twist point (x=%d)' % x, enc(x, y))
        # private keys
        valid = [1, 2, k, n - 2, n - 1]
        for s in valid: add(name, 'sk', 'scalar in range', s.to_bytes(l, 'big'))
        for s, w in ((0, '0'), (n, 'n'), (n + 1, 'n+1'), (n + 2, 'n+2'), (256 ** l - 1, 'all ff'), (2 * n if 2 * n < 256 ** l else n, '2n or n'), ((1 << (8 * l - 1)), 'top bit only')):
            add(name, 'sk', 'scalar ' + w, s.to_bytes(l, 'big'))
        if name == 'p521':
            for bit in range(521, 528):
                add(name, 'sk', '1 with unused top bit %d set' % bit, (1 | (1 << bit)).to_bytes(l, 'big'))
                add(name, 'sk', 'valid key with unused top bit %d set' % bit, (k | (1 << bit)).to_bytes(l, 'big'))
            add(name, 'sk', '2^521 - 1', ((1 << 521) - 1).to_bytes(l, 'big'))
        v = k.to_bytes(l, 'big')
        for L in range(0, 2 * l + 3):
            if L != l: add(name, 'sk', 'valid key resized to %d' % L, (v + bytes(2 * l + 3))[:L])
        for bit in range(0, 8 * l):
            w = bytearray(v); w[bit // 8] ^= 1 << (bit % 8)
            add(name, 'sk', 'valid key with bit %d flipped' % bit, bytes(w))
        w = bytearray((n - 1).to_bytes(l, 'big'))
        for bit in range(0, 8 * l, 3):
            ww = bytearray(w); ww[bit // 8] ^= 1 << (bit % 8)
            add(name, 'sk', 'n-1 with bit %d flipped' % bit, bytes(ww))
    json.dump(cases, open(out_path, 'w'))
    stats = {}
    for c in cases: stats[(c['kind'], c['expect'])] = stats.get((c['kind'], c['expect']), 0) + 1
    print(json.dumps({"cases": len(cases), "by_kind_expect": {"%s/%s" % k: v for k, v in sorted(stats.items())}}))
if __name__ == "__main__":
    main()
