"""R2 - RFC 9180 written from the RFC text over prims.py. Independent of the Rust code and of R1."""
from prims import *

KDFS = {1: ('sha256', 32), 2: ('sha384', 48), 3: ('sha512', 64)}
AEADS = {1: (16, 12, 16), 2: (32, 12, 16), 3: (32, 12, 16), 0xFFFF: (0, 0, 0)}   # Nk, Nn, Nt
KEMS = {0x20: ('x25519', 1, 32, 32, 32), 0x10: ('p256', 1, 32, 65, 32), 0x11: ('p384', 2, 48, 97, 48), 0x12: ('p521', 3, 66, 133, 64)}  # name, kdf, Nsk, Npk, Nsecret

def i2osp(n, l): return n.to_bytes(l, 'big')
def labeled_extract(kdf, suite_id, salt, label, ikm):
    return hk_extract(KDFS[kdf][0], salt, b"HPKE-v1" + suite_id + label + ikm)
def labeled_expand(kdf, suite_id, prk, label, info, L):
    return hk_expand(KDFS[kdf][0], prk, i2osp(L, 2) + b"HPKE-v1" + suite_id + label + info, L)

class Kem:
    def __init__(self, kid):
        self.id = kid; self.name, self.kdf, self.nsk, self.npk, self.nsecret = KEMS[kid]
        self.suite_id = b"KEM" + i2osp(kid, 2)
        self.curve = CURVES.get(self.name)
    def pk(self, sk):
        if self.name == 'x25519': return x25519(sk, X25519_G)
        k = scalar_valid(sk, self.curve); assert not isinstance(k, str), k
        return sec1_encode(ec_mul(k, (self.curve['gx'], self.curve['gy']), self.curve), self.curve)
    def dh(self, sk, pk):
        """None when RFC 9180 says the operation fails"""
        if self.name == 'x25519':
            r = x25519(sk, pk)
            return None if r == bytes(32) else r
        k = scalar_valid(sk, self.curve); Pt = sec1_decode_valid(pk, self.curve)
        if isinstance(k, str) or isinstance(Pt, str): return None
        R = ec_mul(k, Pt, self.curve)
        return None if R is None else R[0].to_bytes(self.curve['l'], 'big')
    def derive_keypair(self, ikm):
        prk = labeled_extract(self.kdf, self.suite_id, b"", b"dkp_prk", ikm)
        if self.name == 'x25519':
            sk = labeled_expand(self.kdf, self.suite_id, prk, b"sk", b"", 32)
            return sk, self.pk(sk), 0
        mask = 0x01 if self.name == 'p521' else 0xff
        counter = 0
        while True:
            assert counter <= 255
            b = bytearray(labeled_expand(self.kdf, self.suite_id, prk, b"candidate", i2osp(counter, 1), self.nsk))
            b[0] &= mask
            if not isinstance(scalar_valid(bytes(b), self.curve), str):
                return bytes(b), self.pk(bytes(b)), counter
            counter += 1
    def _eae(self, dh, kem_context):
        prk = labeled_extract(self.kdf, self.suite_id, b"", b"eae_prk", dh)
        return labeled_expand(self.kdf, self.suite_id, prk, b"shared_secret", kem_context, self.nsecret)
    def encap(self, pk_r, sk_e, sk_s=None):
        dh = self.dh(sk_e, pk_r)
        if dh is None: return None
        enc = self.pk(sk_e); ctx = enc + pk_r
        if sk_s is not None:
            d2 = self.dh(sk_s, pk_r)
            if d2 is None: return None
            dh += d2; ctx += self.pk(sk_s)
        return self._eae(dh, ctx), enc
    def decap(self, enc, sk_r, pk_s=None):
        dh = self.dh(sk_r, enc)
        if dh is None: return None
        ctx = enc + self.pk(sk_r)
        if pk_s is not None:
            d2 = self.dh(sk_r, pk_s)
            if d2 is None: return None
            dh += d2; ctx += pk_s
        return self._eae(dh, ctx)

class Ctx:
    def __init__(self, kem, kdf, aead, mode, shared_secret, info, psk=b"", psk_id=b""):
        self.kdf, self.aead = kdf, aead
        self.suite_id = b"HPKE" + i2osp(kem, 2) + i2osp(kdf, 2) + i2osp(aead, 2)
        nk, nn, nt = AEADS[aead]; nh = KDFS[kdf][1]
        psk_id_hash = labeled_extract(kdf, self.suite_id, b"", b"psk_id_hash", psk_id)
        info_hash = labeled_extract(kdf, self.suite_id, b"", b"info_hash", info)
        ksc = bytes([mode]) + psk_id_hash + info_hash
        secret = labeled_extract(kdf, self.suite_id, shared_secret, b"secret", psk)
        self.key = labeled_expand(kdf, self.suite_id, secret, b"key", ksc, nk)
        self.base_nonce = labeled_expand(kdf, self.suite_id, secret, b"base_nonce", ksc, nn)
        self.exporter_secret = labeled_expand(kdf, self.suite_id, secret, b"exp", ksc, nh)
        self.key_schedule_context = ksc; self.secret = secret; self.seq = 0
    def nonce(self, seq):
        return bytes(a ^ b for a, b in zip(self.base_nonce, i2osp(seq, len(self.base_nonce))))
    def seal(self, aad, pt):
        f = gcm_seal if self.aead in (1, 2) else chachapoly_seal
        ct = f(self.key, self.nonce(self.seq), aad, pt); self.seq += 1; return ct
    def open(self, aad, ct):
        f = gcm_open if self.aead in (1, 2) else chachapoly_open
        pt = f(self.key, self.nonce(self.seq), aad, ct)
        if pt is not None: self.seq += 1
        return pt
    def export(self, ctx, L):
        return labeled_expand(self.kdf, self.suite_id, self.exporter_secret, b"sec", ctx, L)

def setup_s(kem_id, kdf, aead, mode, pk_r, info, ikm_e, psk=b"", psk_id=b"", sk_s=None):
    kem = Kem(kem_id); sk_e, _, _ = kem.derive_keypair(ikm_e)
    r = kem.encap(pk_r, sk_e, sk_s if mode in (2, 3) else None)
    if r is None: return None
    ss, enc = r
    if mode not in (1, 3): psk = psk_id = b""
    return enc, Ctx(kem_id, kdf, aead, mode, ss, info, psk, psk_id), ss
def setup_r(kem_id, kdf, aead, mode, enc, sk_r, info, psk=b"", psk_id=b"", pk_s=None):
    kem = Kem(kem_id)
    ss = kem.decap(enc, sk_r, pk_s if mode in (2, 3) else None)
    if ss is None: return None
    if mode not in (1, 3): psk = psk_id = b""
    return Ctx(kem_id, kdf, aead, mode, ss, info, psk, psk_id)
