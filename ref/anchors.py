#!/usr/bin/env python3
"""R2 self-validation: curve constants and known answers that do NOT come from the code under test.
Exit 0 = all anchors reproduced; exit 2 otherwise (R2 may then not be used as an oracle)."""
import sys
from prims import *
from rfc9180 import *

FAIL = []
def check(name, cond):
    if not cond: FAIL.append(name)
def hx(s): return bytes.fromhex(s.replace(" ", ""))

def curve_constants():
    for name, c in CURVES.items():
        p, n = c['p'], c['n']
        check(name + ": p prime", is_probable_prime(p)); check(name + ": n prime", is_probable_prime(n))
        check(name + ": G on curve", ec_oncurve(c['gx'], c['gy'], c))
        check(name + ": n*G = infinity", ec_mul(n, (c['gx'], c['gy']), c) is None)
        check(name + ": (n-1)*G = -G", ec_mul(n - 1, (c['gx'], c['gy']), c) == (c['gx'], p - c['gy']))
        check(name + ": Hasse bound", (p + 1 - n) ** 2 <= 4 * p)
        check(name + ": 4a^3+27b^2 != 0", (4 * (-3) ** 3 + 27 * c['b'] ** 2) % p != 0)
        check(name + ": field width", (p.bit_length() + 7) // 8 == c['l'])
    check("25519: p prime", is_probable_prime(P25519))

def rfc7748():
    k = hx("a546e36bf0527c9d3b16154b82465edd62144c0ac1fc5a18506a2244ba449ac4"); u = hx("e6db6867583030db3594c1a424b15f7c726624ec26b3353b10a903a6d0ab1c4c")
    check("RFC7748 5.2 #1", x25519(k, u).hex() == "c3da55379de9c6908e94ea4df28d084f32eccf03491c71f754b4075577a28552")
    k = hx("4b66e9d4d1b4673c5ad22691957d6af5c11b6421e0ea01d42ca4169e7918ba0d"); u = hx("e5210f12786811d3f4b7959d0538ae2c31dbe7106fc03c3efc4cd549c715a493")
    check("RFC7748 5.2 #2", x25519(k, u).hex() == "95cbde9476e8907d7aade45cb4b873f88b595a68799fa152e6f8f7647aac7957")
    a = hx("77076d0a7318a57d3c16c17251b26645df4c2f87ebc0992ab177fba51db92c2a"); b = hx("5dab087e624a8a4b79e17f8b83800ee66f3bb1292618b6fd1c2f8b27ff88e0eb")
    check("RFC7748 6.1 alice pub", x25519(a, X25519_G).hex() == "8520f0098930a754748b7ddcb43ef75a0dbf3a0d26381af4eba4a98eaa9b4e6a")
    check("RFC7748 6.1 bob pub", x25519(b, X25519_G).hex() == "de9edb7d7b7dc1b4d35b61c2ece435373f8343c85b78674dadfc7e146f882b4f")
    check("RFC7748 6.1 shared", x25519(a, x25519(b, X25519_G)).hex() == "4a5d9d5ba4ce2de1728e3bf480350f25e07e21c947d19e3376f09b3c1e161742")
    # one iteration of the section 5.2 iterated test
    k = u = X25519_G
    check("RFC7748 5.2 iter 1", x25519(k, u).hex() == "422c8e7a6227d7bca1350b3e2bb7279f7897b87bb6854b783c60e80311ae3079")

def rfc5869():
    prk = hk_extract('sha256', hx("000102030405060708090a0b0c"), b"\x0b" * 22)
    check("RFC5869 A.1 prk", prk.hex() == "077709362c2e32df0ddc3f0dc47bba6390b6c73bb50f9c3122ec844ad7c2b3e5")
    check("RFC5869 A.1 okm", hk_expand('sha256', prk, hx("f0f1f2f3f4f5f6f7f8f9"), 42).hex() == "3cb25f25faacd57a90434f64d0362f2a2d2d0a90cf1a5a4c5db02d56ecc4c5bf34007208d5b887185865")
    prk = hk_extract('sha256', b"", b"\x0b" * 22)
    check("RFC5869 A.3 prk", prk.hex() == "19ef24a32c717b167f33a91d6f648bdf96596776afdb6377ac434c1c293ccb04")
    check("RFC5869 A.3 okm", hk_expand('sha256', prk, b"", 42).hex() == "8da4e775a563c18f715f802a063c5a31b8a11f5c5ee1879ec3454e5f3c738d2d9d201395faa4b61a96c8")

def aeads():
    check("GCM spec test case 1", gcm_seal(bytes(16), bytes(12), b"", b"").hex() == "58e2fccefa7e3061367f1d57a4e7455a")
    check("GCM spec test case 2", gcm_seal(bytes(16), bytes(12), b"", bytes(16)).hex() == "0388dace60b6a392f328c2b971b2fe78ab6e47d42cec13bdf53a67b21257bddf")
    # GCM spec test case 4 (AES-128, 60-byte plaintext, 20-byte aad)
    key = hx("feffe9928665731c6d6a8f9467308308"); iv = hx("cafebabefacedbaddecaf888")
    pt = hx("d9313225f88406e5a55909c5aff5269a86a7a9531534f7da2e4c303d8a318a721c3c0c95956809532fcf0e2449a6b525b16aedf5aa0de657ba637b39")
    aad = hx("feedfacedeadbeeffeedfacedeadbeefabaddad2")
    out = gcm_seal(key, iv, aad, pt)
    check("GCM spec test case 4 ct", out[:-16].hex() == "42831ec2217774244b7221b784d0d49ce3aa212f2c02a4e035c17e2329aca12e21d514b25466931c7d8f6a5aac84aa051ba30b396a0aac973d58e091")
    check("GCM spec test case 4 tag", out[-16:].hex() == "5bc94fbc3221a5db94fae95ae7121a47")
    check("GCM open(seal) round trip", gcm_open(key, iv, aad, out) == pt and gcm_open(key, iv, aad + b"x", out) is None)
    # AES-256: GCM spec test case 14 (key 0^256, pt 0^128)
    check("GCM spec test case 14", gcm_seal(bytes(32), bytes(12), b"", bytes(16)).hex() == "cea7403d4d606b6e074ec5d3baf39d18d0d1c8a799996bf0265b98b5d48ab919")
    key = bytes(range(0x80, 0xa0)); nonce = hx("070000004041424344454647"); aad = hx("50515253c0c1c2c3c4c5c6c7")
    pt = b"Ladies and Gentlemen of the class of '99: If I could offer you only one tip for the future, sunscreen would be it."
    o = chachapoly_seal(key, nonce, aad, pt)
    check("RFC8439 2.8.2 tag", o[-16:].hex() == "1ae10b594f09e26a7e902ecbd0600691")
    check("RFC8439 2.8.2 ct", o[:16].hex() == "d31a8d34648e60db7b86afbc53ef7ec2")
    check("chachapoly open(seal)", chachapoly_open(key, nonce, aad, o) == pt and chachapoly_open(key, nonce, aad, o[:-1] + bytes([o[-1] ^ 1])) is None)

def rfc5903():
    V = {
     'p256': ("C88F01F510D9AC3F70A292DAA2316DE544E9AAB8AFE84049C62A9C57862D1433", "C6EF9C5D78AE012A011164ACB397CE2088685D8F06BF9BE0B283AB46476BEE53",
              "04DAD0B65394221CF9B051E1FECA5787D098DFE637FC90B9EF945D0C37725811805271A0461CDB8252D61F1C456FA3E59AB1F45B33ACCF5F58389E0577B8990BB3",
              "04D12DFB5289C8D4F81208B70270398C342296970A0BCCB74C736FC7554494BF6356FBF3CA366CC23E8157854C13C58D6AAC23F046ADA30F8353E74F33039872AB",
              "D6840F6B42F6EDAFD13116E0E12565202FEF8E9ECE7DCE03812464D04B9442DE"),
     'p384': ("099F3C7034D4A2C699884D73A375A67F7624EF7C6B3C0F160647B67414DCE655E35B538041E649EE3FAEF896783AB194", "41CB0779B4BDB85D47846725FBEC3C9430FAB46CC8DC5060855CC9BDA0AA2942E0308312916B8ED2960E4BD55A7448FC",
              "04667842D7D180AC2CDE6F74F37551F55755C7645C20EF73E31634FE72B4C55EE6DE3AC808ACB4BDB4C88732AEE95F41AA9482ED1FC0EEB9CAFC4984625CCFC23F65032149E0E144ADA024181535A0F38EEB9FCFF3C2C947DAE69B4C634573A81C",
              "04E558DBEF53EECDE3D3FCCFC1AEA08A89A987475D12FD950D83CFA41732BC509D0D1AC43A0336DEF96FDA41D0774A3571DCFBEC7AACF3196472169E838430367F66EEBE3C6E70C416DD5F0C68759DD1FFF83FA40142209DFF5EAAD96DB9E6386C",
              "11187331C279962D93D604243FD592CB9D0A926F422E47187521287E7156C5C4D603135569B9E9D09CF5D4A270F59746"),
     'p521': ("0037ADE9319A89F4DABDB3EF411AACCCA5123C61ACAB57B5393DCE47608172A095AA85A30FE1C2952C6771D937BA9777F5957B2639BAB072462F68C27A57382D4A52", "0145BA99A847AF43793FDD0E872E7CDFA16BE30FDC780F97BCCC3F078380201E9C677D600B343757A3BDBF2A3163E4C2F869CCA7458AA4A4EFFC311F5CB151685EB9",
              "040015417E84DBF28C0AD3C278713349DC7DF153C897A1891BD98BAB4357C9ECBEE1E3BF42E00B8E380AEAE57C2D107564941885942AF5A7F4601723C4195D176CED3E017CAE20B6641D2EEB695786D8C946146239D099E18E1D5A514C739D7CB4A10AD8A788015AC405D7799DC75E7B7D5B6CF2261A6A7F1507438BF01BEB6CA3926F9582",
              "0400D0B3975AC4B799F5BEA16D5E13E9AF971D5E9B984C9F39728B5E5739735A219B97C356436ADC6E95BB0352F6BE64A6C2912D4EF2D0433CED2B6171640012D9460F015C68226383956E3BD066E797B623C27CE0EAC2F551A10C2C724D9852077B87220B6536C5C408A1D2AEBB8E86D678AE49CB57091F4732296579AB44FCD17F0FC56A",
              "01144C7D79AE6956BC8EDB8E7C787C4521CB086FA64407F97894E5E6B2D79B04D1427E73CA4BAA240A34786859810C06B3C715A3A8CC3151F2BEE417996D19F3DDEA")}
    ids = {'p256': 0x10, 'p384': 0x11, 'p521': 0x12}
    for name, (k0, k1, p0, p1, dh) in V.items():
        kem = Kem(ids[name])
        check("RFC5903 %s pk0" % name, kem.pk(hx(k0)) == hx(p0)); check("RFC5903 %s pk1" % name, kem.pk(hx(k1)) == hx(p1))
        check("RFC5903 %s dh01" % name, kem.dh(hx(k0), hx(p1)) == hx(dh)); check("RFC5903 %s dh10" % name, kem.dh(hx(k1), hx(p0)) == hx(dh))

INFO = hx("4f6465206f6e2061204772656369616e2055726e"); PT = hx("4265617574792069732074727574682c20747275746820626561757479")
PSK = hx("0247fd33b913760fa1fa51e1892d9f307fbe65eb171e8132c2af18555a738b82"); PSK_ID = hx("456e6e796e20447572696e206172616e204d6f726961")

def rfc9180():
    # A.1.1
    kem = Kem(0x20)
    sk_e, pk_e, _ = kem.derive_keypair(hx("7268600d403fce431561aef583ee1613527cff655c1343f29812e66706df3234"))
    check("A.1.1 skEm", sk_e.hex() == "52c4a758a802cd8b936eceea314432798d5baf2d7e9235dc084ab1b9cfa2f736")
    check("A.1.1 pkEm", pk_e.hex() == "37fda3567bdbd628e88668c3c8d7e97d1d1253b6d4ea6d44c150f741f1bf4431")
    sk_r, pk_r, _ = kem.derive_keypair(hx("6db9df30aa07dd42ee5e8181afdb977e538f5e1fec8a06223f33f7013e525037"))
    check("A.1.1 skRm", sk_r.hex() == "4612c550263fc8ad58375df3f557aac531d26850903e55a9f23f21d8534e8ac8")
    check("A.1.1 pkRm", pk_r.hex() == "3948cfe0ad1ddb695d780e59077195da6c56506b027329794ab02bca80815c4d")
    enc, c, ss = setup_s(0x20, 1, 1, 0, pk_r, INFO, hx("7268600d403fce431561aef583ee1613527cff655c1343f29812e66706df3234"))
    check("A.1.1 shared_secret", ss.hex() == "fe0e18c9f024ce43799ae393c7e8fe8fce9d218875e8227b0187c04e7d2ea1fc")
    check("A.1.1 key_schedule_context", c.key_schedule_context.hex() == "00725611c9d98c07c03f60095cd32d400d8347d45ed67097bbad50fc56da742d07cb6cffde367bb0565ba28bb02c90744a20f5ef37f30523526106f637abb05449")
    check("A.1.1 secret", c.secret.hex() == "12fff91991e93b48de37e7daddb52981084bd8aa64289c3788471d9a9712f397")
    check("A.1.1 key", c.key.hex() == "4531685d41d65f03dc48f6b8302c05b0"); check("A.1.1 base_nonce", c.base_nonce.hex() == "56d890e5accaaf011cff4b7d")
    check("A.1.1 exporter_secret", c.exporter_secret.hex() == "45ff1c2e220db587171952c0592d5f5ebe103f1561a2614e38f2ffd47e99e3f8")
    check("A.1.1 ct0", c.seal(b"Count-0", PT).hex() == "f938558b5d72f1a23810b4be2ab4f84331acc02fc97babc53a52ae8218a355a96d8770ac83d07bea87e13c512a")
    check("A.1.1 ct1", c.seal(b"Count-1", PT).hex() == "af2d7e9ac9ae7e270f46ba1f975be53c09f8d875bdc8535458c2494e8a6eab251c03d0c22a56b8ca42c2063b84")
    check("A.1.1 export ''", c.export(b"", 32).hex() == "3853fe2b4035195a573ffc53856e77058e15d9ea064de3e59f4961d0095250ee")
    check("A.1.1 export 00", c.export(b"\0", 32).hex() == "2e8f0b54673c7029649d4eb9d5e33bf1872cf76d623ff164ac185da9e88c21a5")
    check("A.1.1 export TestContext", c.export(b"TestContext", 32).hex() == "e9e43065102c3836401bed8c3c3c75ae46be1639869391d62c61f1ec7af54931")
    r = setup_r(0x20, 1, 1, 0, enc, sk_r, INFO)
    check("A.1.1 receiver", r.key == c.key and r.open(b"Count-0", hx("f938558b5d72f1a23810b4be2ab4f84331acc02fc97babc53a52ae8218a355a96d8770ac83d07bea87e13c512a")) == PT)
    # A.1.2 Psk
    _, pk_r, _ = kem.derive_keypair(hx("d4a09d09f575fef425905d2ab396c1449141463f698f8efdb7accfaff8995098"))
    check("A.1.2 pkRm", pk_r.hex() == "9fed7e8c17387560e92cc6462a68049657246a09bfa8ade7aefe589672016366")
    enc, c, ss = setup_s(0x20, 1, 1, 1, pk_r, INFO, hx("78628c354e46f3e169bd231be7b2ff1c77aa302460a26dbfa15515684c00130b"), PSK, PSK_ID)
    check("A.1.2 enc", enc.hex() == "0ad0950d9fb9588e59690b74f1237ecdf1d775cd60be2eca57af5a4b0471c91b")
    check("A.1.2 shared_secret", ss.hex() == "727699f009ffe3c076315019c69648366b69171439bd7dd0807743bde76986cd")
    check("A.1.2 key", c.key.hex() == "15026dba546e3ae05836fc7de5a7bb26"); check("A.1.2 base_nonce", c.base_nonce.hex() == "9518635eba129d5ce0914555")
    check("A.1.2 exporter_secret", c.exporter_secret.hex() == "3d76025dbbedc49448ec3f9080a1abab6b06e91c0b11ad23c912f043a0ee7655")
    # A.1.3 Auth
    _, pk_r, _ = kem.derive_keypair(hx("f1d4a30a4cef8d6d4e3b016e6fd3799ea057db4f345472ed302a67ce1c20cdec"))
    sk_s, pk_s, _ = kem.derive_keypair(hx("94b020ce91d73fca4649006c7e7329a67b40c55e9e93cc907d282bbbff386f58"))
    check("A.1.3 pkSm", pk_s.hex() == "8b0c70873dc5aecb7f9ee4e62406a397b350e57012be45cf53b7105ae731790b")
    enc, c, ss = setup_s(0x20, 1, 1, 2, pk_r, INFO, hx("6e6d8f200ea2fb20c30b003a8b4f433d2f4ed4c2658d5bc8ce2fef718059c9f7"), sk_s=sk_s)
    check("A.1.3 shared_secret", ss.hex() == "2d6db4cf719dc7293fcbf3fa64690708e44e2bebc81f84608677958c0d4448a7")
    check("A.1.3 key", c.key.hex() == "b062cb2c4dd4bca0ad7c7a12bbc341e6"); check("A.1.3 base_nonce", c.base_nonce.hex() == "a1bc314c1942ade7051ffed0")
    check("A.1.3 exporter_secret", c.exporter_secret.hex() == "ee1a093e6e1c393c162ea98fdf20560c75909653550540a2700511b65c88c6f1")
    # A.1.4 AuthPsk
    _, pk_r, _ = kem.derive_keypair(hx("4b16221f3b269a88e207270b5e1de28cb01f847841b344b8314d6a622fe5ee90"))
    sk_s, pk_s, _ = kem.derive_keypair(hx("62f77dcf5df0dd7eac54eac9f654f426d4161ec850cc65c54f8b65d2e0b4e345"))
    enc, c, ss = setup_s(0x20, 1, 1, 3, pk_r, INFO, hx("4303619085a20ebcf18edd22782952b8a7161e1dbae6e46e143a52a96127cf84"), PSK, PSK_ID, sk_s)
    check("A.1.4 shared_secret", ss.hex() == "f9d0e870aba28d04709b2680cb8185466c6a6ff1d6e9d1091d5bf5e10ce3a577")
    check("A.1.4 key", c.key.hex() == "1364ead92c47aa7becfa95203037b19a"); check("A.1.4 base_nonce", c.base_nonce.hex() == "99d8b5c54669807e9fc70df1")
    check("A.1.4 exporter_secret", c.exporter_secret.hex() == "f048d55eacbf60f9c6154bd4021774d1075ebf963c6adc71fa846f183ab2dde6")
    # A.2.1 ChaCha20Poly1305
    _, pk_r, _ = kem.derive_keypair(hx("1ac01f181fdf9f352797655161c58b75c656a6cc2716dcb66372da835542e1df"))
    enc, c, ss = setup_s(0x20, 1, 3, 0, pk_r, INFO, hx("909a9b35d3dc4713a5e72a4da274b55d3d3821a37e5d099e74a647db583a904b"))
    check("A.2.1 key", c.key.hex() == "ad2744de8e17f4ebba575b3f5f5a8fa1f69c2a07f6e7500bc60ca6e3e3ec1c91")
    check("A.2.1 ct0", c.seal(b"Count-0", PT).hex() == "1c5250d8034ec2b784ba2cfd69dbdb8af406cfe3ff938e131f0def8c8b60b4db21993c62ce81883d2dd1b51a28")
    # A.3.1 P-256
    k256 = Kem(0x10)
    sk_r, pk_r, _ = k256.derive_keypair(hx("668b37171f1072f3cf12ea8a236a45df23fc13b82af3609ad1e354f6ef817550"))
    check("A.3.1 skRm", sk_r.hex() == "f3ce7fdae57e1a310d87f1ebbde6f328be0a99cdbcadf4d6589cf29de4b8ffd2")
    check("A.3.1 pkRm", pk_r.hex() == "04fe8c19ce0905191ebc298a9245792531f26f0cece2460639e8bc39cb7f706a826a779b4cf969b8a0e539c7f62fb3d30ad6aa8f80e30f1d128aafd68a2ce72ea0")
    enc, c, ss = setup_s(0x10, 1, 1, 0, pk_r, INFO, hx("4270e54ffd08d79d5928020af4686d8f6b7d35dbe470265f1f5aa22816ce860e"))
    check("A.3.1 enc", enc.hex() == "04a92719c6195d5085104f469a8b9814d5838ff72b60501e2c4466e5e67b325ac98536d7b61a1af4b78e5b7f951c0900be863c403ce65c9bfcb9382657222d18c4")
    check("A.3.1 shared_secret", ss.hex() == "c0d26aeab536609a572b07695d933b589dcf363ff9d93c93adea537aeabb8cb8")
    check("A.3.1 key", c.key.hex() == "868c066ef58aae6dc589b6cfdd18f97e"); check("A.3.1 base_nonce", c.base_nonce.hex() == "4e0bc5018beba4bf004cca59")
    check("A.3.1 exporter_secret", c.exporter_secret.hex() == "14ad94af484a7ad3ef40e9f3be99ecc6fa9036df9d4920548424df127ee0d99f")
    # A.6.1 P-521 / SHA-512 / AES-256-GCM
    k521 = Kem(0x12)
    _, pk_r, _ = k521.derive_keypair(hx("2ad954bbe39b7122529f7dde780bff626cd97f850d0784a432784e69d86eccaade43b6c10a8ffdb94bf943c6da479db137914ec835a7e715e36e45e29b587bab3bf1"))
    enc, c, ss = setup_s(0x12, 3, 2, 0, pk_r, INFO, hx("7f06ab8215105fc46aceeb2e3dc5028b44364f960426eb0d8e4026c2f8b5d7e7a986688f1591abf5ab753c357a5d6f0440414b4ed4ede71317772ac98d9239f70904"))
    check("A.6.1 enc", enc.hex() == "040138b385ca16bb0d5fa0c0665fbbd7e69e3ee29f63991d3e9b5fa740aab8900aaeed46ed73a49055758425a0ce36507c54b29cc5b85a5cee6bae0cf1c21f2731ece2013dc3fb7c8d21654bb161b463962ca19e8c654ff24c94dd2898de12051f1ed0692237fb02b2f8d1dc1c73e9b366b529eb436e98a996ee522aef863dd5739d2f29b0")
    check("A.6.1 shared_secret", ss.hex() == "776ab421302f6eff7d7cb5cb1adaea0cd50872c71c2d63c30c4f1d5e43653336fef33b103c67e7a98add2d3b66e2fda95b5b2a667aa9dac7e59cc1d46d30e818")
    check("A.6.1 key", c.key.hex() == "751e346ce8f0ddb2305c8a2a85c70d5cf559c53093656be636b9406d4d7d1b70"); check("A.6.1 base_nonce", c.base_nonce.hex() == "55ff7a7d739c69f44b25447b")
    # A.7.1 export-only
    _, pk_r, _ = kem.derive_keypair(hx("683ae0da1d22181e74ed2e503ebf82840deb1d5e872cade20f4b458d99783e31"))
    enc, c, ss = setup_s(0x20, 1, 0xFFFF, 0, pk_r, INFO, hx("55bc245ee4efda25d38f2d54d5bb6665291b99f8108a8c4b686c2b14893ea5d9"))
    check("A.7.1 enc", enc.hex() == "e5e8f9bfff6c2f29791fc351d2c25ce1299aa5eaca78a757c0b4fb4bcd830918")
    check("A.7.1 exporter_secret", c.exporter_secret.hex() == "79dc8e0509cf4a3364ca027e5a0138235281611ca910e435e8ed58167c72f79b")
    check("A.7.1 export TestContext", c.export(b"TestContext", 32).hex() == "ffaabc85a776136ca0c378e5d084c9140ab552b78f039d2e8775f26efff4c70e")
    # Appendix B witness
    sk, pk, rej = k256.derive_keypair(hx("00000000a432f1f9"))
    check("P-256 retry witness", rej == 1 and sk.hex() == "f117c44aaad10f124d14afbf2a4bbae0f458cd15e79ea98b96d7efeb4f85b8be")

def small_order():
    import x25519_small_order
    encs = x25519_small_order.encodings()
    check("x25519: 14 small-order encodings", len(encs) == 14 and len(set(encs)) == 14)
    for e in encs:
        for k in (bytes([1] * 32), bytes(range(32)), b"\xff" * 32):
            check("x25519 small order %s" % e.hex(), x25519(k, e) == bytes(32))

def main():
    for f in (curve_constants, rfc7748, rfc5869, aeads, rfc5903, rfc9180, small_order):
        try:
            f()
        except Exception as ex:
            FAIL.append("%s raised %r" % (f.__name__, ex))
    if FAIL:
        for f in FAIL: print("ANCHOR-FAILED", f)
        return 2
    print("R2 anchors ok")
    return 0
if __name__ == "__main__":
    sys.exit(main())
