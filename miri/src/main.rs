use hpke::{
    aead::{AesGcm128, ChaCha20Poly1305},
    kdf::{HkdfSha256, HkdfSha512},
    kem::{DhP256HkdfSha256, X25519HkdfSha256},
    rand_core::{CryptoRng, RngCore},
    Kem as KemT, OpModeR, OpModeS, Serializable,
};
use std::sync::Arc;

struct R(u8);
impl RngCore for R {
    fn next_u32(&mut self) -> u32 { 0 }
    fn next_u64(&mut self) -> u64 { 0 }
    fn fill_bytes(&mut self, d: &mut [u8]) { for x in d { *x = self.0; self.0 = self.0.wrapping_add(1); } }
}
impl CryptoRng for R {}

fn sess_x(tag: u8) -> Vec<u8> {
    type K = X25519HkdfSha256;
    let (skr, pkr) = K::derive_keypair(&[tag; 32]);
    let (enc, mut s) = hpke::setup_sender::<ChaCha20Poly1305, HkdfSha256, K, _>(&OpModeS::Base, &pkr, b"i", &mut R(tag)).unwrap();
    let ct = s.seal(b"hello", b"a").unwrap();
    let mut r = hpke::setup_receiver::<ChaCha20Poly1305, HkdfSha256, K>(&OpModeR::Base, &skr, &enc, b"i").unwrap();
    let pt = r.open(&ct, b"a").unwrap();
    let mut o = enc.to_bytes().to_vec(); o.extend(ct); o.extend(pt); o
}
fn sess_p(tag: u8) -> Vec<u8> {
    type K = DhP256HkdfSha256;
    let (skr, pkr) = K::derive_keypair(&[tag; 32]);
    let (enc, mut s) = hpke::setup_sender::<AesGcm128, HkdfSha512, K, _>(&OpModeS::Base, &pkr, b"j", &mut R(tag)).unwrap();
    let ct = s.seal(b"world", b"b").unwrap();
    let mut r = hpke::setup_receiver::<AesGcm128, HkdfSha512, K>(&OpModeR::Base, &skr, &enc, b"j").unwrap();
    let pt = r.open(&ct, b"b").unwrap();
    let mut o = enc.to_bytes().to_vec(); o.extend(ct); o.extend(pt); o
}

fn main() {
    // sequential reference results first
    let (ax, ap) = (sess_x(1), sess_p(2));
    // two sessions on different suites, concurrently; then two on the same suite
    let h1 = std::thread::spawn(|| sess_x(1));
    let h2 = std::thread::spawn(|| sess_p(2));
    assert_eq!(h1.join().unwrap(), ax);
    assert_eq!(h2.join().unwrap(), ap);
    let h1 = std::thread::spawn(|| sess_x(1));
    let h2 = std::thread::spawn(|| sess_x(1));
    assert_eq!(h1.join().unwrap(), ax);
    assert_eq!(h2.join().unwrap(), ax);
    // concurrent exports from one shared context
    type K = X25519HkdfSha256;
    let (_skr, pkr) = K::derive_keypair(&[9; 32]);
    let (_e, ctx) = hpke::setup_sender::<ChaCha20Poly1305, HkdfSha256, K, _>(&OpModeS::Base, &pkr, b"i", &mut R(3)).unwrap();
    let ctx = Arc::new(ctx);
    let mut e1 = [0u8; 32]; ctx.export(b"c1", &mut e1).unwrap();
    let mut e2 = [0u8; 70]; ctx.export(b"c2", &mut e2).unwrap();
    let (c1, c2) = (ctx.clone(), ctx.clone());
    let h1 = std::thread::spawn(move || { let mut o = [0u8; 32]; c1.export(b"c1", &mut o).unwrap(); o });
    let h2 = std::thread::spawn(move || { let mut o = [0u8; 70]; c2.export(b"c2", &mut o).unwrap(); o });
    assert_eq!(h1.join().unwrap(), e1);
    assert_eq!(h2.join().unwrap(), e2);
    println!("miri pass ok");
}
