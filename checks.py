"""Per-property orchestration for ./check (which engines are built and run, in which order)."""
import json, os, subprocess, sys, time

HARNESS_PROPS = {"C01", "C02", "C03", "C04", "C05", "C06", "C07", "C08", "C09", "C10", "C11", "C12", "C13", "C14", "C15", "C16"}


def fail_build(out):
    sys.stderr.write(out[-6000:])
    print("MACHINERY-ERROR build failed", file=sys.stderr)
    return 2


def harness(drv, prop, tier, args, guard_on=True, extra_args=None):
    tdir, out = drv.build(guard_on=guard_on)
    if tdir is None:
        return fail_build(out)
    exe = os.path.join(tdir, "release", "hpke-mc")
    cmd = [exe, prop, "--root", drv.ROOT] + args + (extra_args or [])
    return drv.run(cmd, cwd=drv.ROOT)


def dispatch(drv, prop, tier, args):
    if prop == "C16":
        # slot scan from a guard-off build first (the ledger line must not be what keeps a wipe alive),
        # then scan + drop ledger from the guard-on build; one evidence file
        part = os.path.join(drv.ROOT, "target", "c16_guard_off_part.json")
        if os.path.exists(part):
            os.remove(part)
        if "--replay" in args:
            rp = json.load(open(args[args.index("--replay") + 1]))
            return harness(drv, prop, tier, args, guard_on=("guard-on" in rp.get("part", "")))
        rc = harness(drv, prop, tier, args, guard_on=False, extra_args=["--emit-part", part])
        if rc == 2 or not os.path.exists(part):
            print("MACHINERY-ERROR guard-off C16 run did not produce its part", file=sys.stderr)
            return 2
        return harness(drv, prop, tier, args, guard_on=True, extra_args=["--merge-part", part])
    if prop in HARNESS_PROPS:
        return harness(drv, prop, tier, args)
    print(f"unknown property {prop}", file=sys.stderr)
    return 2
