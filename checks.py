"""Per-property orchestration for ./check (which engines are built and run, in which order)."""
import json, os, subprocess, sys, time

HARNESS_PROPS = {"C01", "C02", "C03", "C04", "C05", "C06", "C07", "C08", "C09", "C10", "C11", "C12", "C13", "C14", "C15", "C16"}


def fail_build(out):
    sys.stderr.write(out[-6000:])
    print("MACHINERY-ERROR build failed", file=sys.stderr)
    return 2


# The exploration of a property is repeated with the library built in other ways; functional behaviour must not
# depend on the build:
#   relprod = guard ON,  the profile a release user gets (no debug assertions, no overflow checks); hooks available
#   user    = guard OFF, same profile: exactly what a downstream `cargo build --release` compiles; the steps that need
#             the sequence-number hooks are skipped there (suites::HOOKS), so it is used for the E1 properties
VARIANTS = {"relprod": (True, "relprod"), "user": (False, "relprod")}
RELPROD_QUICK = {"C02", "C04", "C05", "C08", "C16"}
RELPROD_THOROUGH = {"C01", "C02", "C03", "C04", "C05", "C06", "C07", "C08", "C10", "C11", "C14", "C15", "C16"}
USER_BOTH = {"C01", "C02", "C03", "C06", "C07", "C08", "C09", "C10", "C11", "C12", "C13", "C14", "C15"}


def variants_for(prop, tier):
    v = []
    if prop in (RELPROD_THOROUGH if tier == "thorough" else RELPROD_QUICK):
        v.append("relprod")
    if prop in USER_BOTH:
        v.append("user")
    return v


def harness(drv, prop, tier, args, guard_on=True, extra_args=None, profile="release", variant=None):
    if variant is None and guard_on and "--replay" not in args and "--emit-part" not in (extra_args or []):
        for var in variants_for(prop, tier):
            part = os.path.join(drv.ROOT, "target", f"{prop}_{var}_part.json")
            if os.path.exists(part):
                os.remove(part)
            ea = list(extra_args or [])
            if "--transcript" in ea:
                i = ea.index("--transcript")
                ea = ea[:i] + ea[i + 2:]
            if "--merge-part" in ea:
                i = ea.index("--merge-part")
                ea = ea[:i] + ea[i + 2:]
            g, prof = VARIANTS[var]
            rc = harness(drv, prop, tier, args, guard_on=g, extra_args=ea + ["--emit-part", part], profile=prof, variant=var)
            if rc == 2 or not os.path.exists(part):
                print(f"MACHINERY-ERROR the {var} run did not produce its part", file=sys.stderr)
                return 2
            extra_args = (extra_args or []) + ["--merge-part", part]
    if "--replay" in args:
        try:
            pn = json.load(open(args[args.index("--replay") + 1])).get("part", "")
            for var, (g, prof) in VARIANTS.items():
                if "@" + var in pn:
                    guard_on, profile, variant = g, prof, var
        except Exception:
            pass
    tdir, out = drv.build(guard_on=guard_on, extra=["--bin", "hpke-mc"], profile=profile)
    if tdir is None:
        return fail_build(out)
    exe = os.path.join(tdir, profile, "hpke-mc")
    if variant:
        os.environ["HPKE_MC_VARIANT"] = variant
    else:
        os.environ.pop("HPKE_MC_VARIANT", None)
    cmd = [exe, prop, "--root", drv.ROOT] + args + (extra_args or [])
    if "--replay" in args:
        return drv.run(cmd, cwd=drv.ROOT)
    # every worker records the case it is about to run; if the engine aborts (signal, allocation failure, stack
    # overflow) or never returns, the in-flight cases are re-run one by one in their own processes to find the culprit
    pdir = os.path.join(drv.ROOT, "target", f"inflight-{prop}-{'on' if guard_on else 'off'}")
    import shutil
    shutil.rmtree(pdir, ignore_errors=True)
    os.makedirs(pdir, exist_ok=True)
    cap = int(os.environ.get("VERIF_WALL_CAP_S", "14400" if tier == "thorough" else "1800"))
    env = dict(os.environ, HPKE_MC_PROGRESS_DIR=pdir)
    try:
        p = subprocess.run(cmd, cwd=drv.ROOT, env=env, timeout=cap)
        rc = p.returncode
        died = "died with status %d" % rc if (rc < 0 or rc > 2) else None
    except subprocess.TimeoutExpired:
        rc, died = None, f"did not finish within {cap}s"
    if died is None:
        shutil.rmtree(pdir, ignore_errors=True)
        return rc
    print(f"[check] engine {died}; re-running the {len(os.listdir(pdir))} in-flight case(s) in isolation", file=sys.stderr)
    culprits = []
    for f in sorted(os.listdir(pdir)):
        path = os.path.join(pdir, f)
        try:
            rcmd = [exe, prop, "--root", drv.ROOT, "--replay", path]
            if extra_args and "--cases" in extra_args:
                rcmd += ["--cases", extra_args[extra_args.index("--cases") + 1]]
            q = subprocess.run(rcmd, cwd=drv.ROOT, timeout=300, capture_output=True, text=True)
            if q.returncode < 0 or q.returncode > 2:
                culprits.append((path, f"aborts (status {q.returncode})"))
        except subprocess.TimeoutExpired:
            culprits.append((path, "does not return within 300 s"))
    if not culprits:
        print(f"MACHINERY-ERROR engine {died} and no single in-flight case reproduces it: no verdict", file=sys.stderr)
        return 2
    os.makedirs(os.path.join(drv.ROOT, "replays", prop), exist_ok=True)
    for i, (path, why) in enumerate(culprits):
        keep = os.path.join(drv.ROOT, "replays", prop, f"crash-{i+1}.json")
        shutil.copy(path, keep)
        print(f"VIOLATION property={prop} replay={keep}")
        print(f"  the library {why} on this case (run in its own process); a call that takes the process down or never returns is not 'a value or an HpkeError'")
    ev = {"property_id": prop, "tier": tier, "seed": int(os.environ.get("VERIF_SEED", "0")), "level": "model_checking",
          "coverage": {"evaluations": len(culprits), "distinct_nontrivial": max(2, len(culprits)), "rule": "the engine died or hung; the in-flight cases were re-run in isolation and these reproduce it",
                       "samples": [json.load(open(c[0]))["case"] for c in culprits][:3], "exhaustive": False},
          "assumptions": [], "wall_s": 0.0, "violations": len(culprits)}
    json.dump(ev, open(os.path.join(drv.ROOT, "evidence", f"{prop}.json"), "w"), indent=1)
    return 1


def run_r2(drv, prop, tier, args):
    """C02 / C03: harness run with a transcript, then the independent Python reference recomputes it"""
    ref = os.path.join(drv.ROOT, "ref")
    t0 = time.time()
    p = subprocess.run([sys.executable, os.path.join(ref, "anchors.py")], cwd=ref, capture_output=True, text=True)
    if p.returncode != 0:
        sys.stderr.write(p.stdout + p.stderr)
        print("MACHINERY-ERROR R2 anchors failed: the Python reference may not be used as an oracle", file=sys.stderr)
        return 2
    tr = os.path.join(drv.ROOT, "target", f"{prop}.transcript.jsonl")
    if os.path.exists(tr):
        os.remove(tr)
    extra = ["--transcript", tr]
    if prop == "C02" and "--replay" not in args:
        # the concurrent part first: whole sessions side by side under the schedule explorer, merged into the evidence
        tdir, out = drv.build(guard_on=True, extra=["--bin", "sched"])
        if tdir is None:
            return fail_build(out)
        spart = os.path.join(drv.ROOT, "target", "c02_sched_part.json")
        if os.path.exists(spart):
            os.remove(spart)
        rc = drv.run([os.path.join(tdir, "release", "sched"), "C02", "--root", drv.ROOT, "--emit-part", spart] + args, cwd=drv.ROOT)
        if rc != 0 or not os.path.exists(spart):
            print("MACHINERY-ERROR the schedule explorer did not produce its C02 part", file=sys.stderr)
            return 2
        extra += ["--merge-part", spart]
    if prop == "C02" and "--replay" in args:
        try:
            if json.load(open(args[args.index("--replay") + 1])).get("part", "").startswith("E3b-"):
                tdir, out = drv.build(guard_on=True, extra=["--bin", "sched"])
                if tdir is None:
                    return fail_build(out)
                return drv.run([os.path.join(tdir, "release", "sched"), "C02", "--root", drv.ROOT] + args, cwd=drv.ROOT)
        except Exception:
            pass
    rc = harness(drv, prop, tier, args, extra_args=extra)
    if rc == 2 or "--replay" in args:
        return rc
    if not os.path.exists(tr):
        print("MACHINERY-ERROR no transcript written", file=sys.stderr)
        return 2
    cmd = [sys.executable, os.path.join(ref, "verify_transcript.py"), tr]
    if tier == "thorough":
        cmd += ["--max", "40000"]
    p = subprocess.run(cmd, cwd=ref, capture_output=True, text=True)
    sys.stdout.write("".join(l + "\n" for l in p.stdout.splitlines() if l.startswith("R2-MISMATCH")))
    if p.returncode not in (0, 1):
        sys.stderr.write(p.stdout + p.stderr)
        print("MACHINERY-ERROR R2 transcript verification crashed", file=sys.stderr)
        return 2
    try:
        r2 = json.loads(p.stdout.strip().splitlines()[-1])
    except Exception:
        print("MACHINERY-ERROR cannot parse R2 result", file=sys.stderr)
        return 2
    evp = os.path.join(drv.ROOT, "evidence", f"{prop}.json")
    ev = json.load(open(evp))
    ev["coverage"]["r2_transcript"] = dict(r2, wall_s=round(time.time() - t0, 2), anchors="RFC 9180 A.1.1-A.1.4, A.2.1, A.3.1, A.6.1, A.7.1; RFC 7748; RFC 5869; GCM spec TC 1,2,4,14; RFC 8439 2.8.2; RFC 5903; curve constants self-validated",
                                       note="every transcript line (inputs + R1 expectation + implementation output) recomputed from the inputs alone by the pure-Python reference")
    ev["coverage"]["traces_validated_against_impl"] = ev["coverage"].get("traces_validated_against_impl", 0)
    if p.returncode == 1:
        os.makedirs(os.path.join(drv.ROOT, "replays", prop), exist_ok=True)
        keep = os.path.join(drv.ROOT, "replays", prop, "r2-transcript.jsonl")
        import shutil
        shutil.copy(tr, keep)
        ev["violations"] = ev.get("violations", 0) + r2.get("r2_mismatches", 1)
        json.dump(ev, open(evp, "w"), indent=1)
        print(f"VIOLATION property={prop} replay={keep}")
        print(f"  R2 (independent Python RFC 9180) disagrees on {r2.get('r2_mismatches')} transcript lines; re-run: python3 ref/verify_transcript.py {keep}")
        return 1
    json.dump(ev, open(evp, "w"), indent=1)
    print(f"[check] R2 reproduced {r2['r2_lines']} transcript lines ({r2['r2_kinds']}) in {time.time()-t0:.1f}s", file=sys.stderr)
    return rc


def run_c18(drv, prop, tier, args):
    # 1. compile probe: all public types Send + Sync. A build failure on exactly that is the violation.
    tdir, out = drv.build(guard_on=True, extra=["--bin", "sendsync"])
    if tdir is None:
        if "E0277" in out and ("Send" in out or "Sync" in out) and "sendsync.rs" in out:
            os.makedirs(os.path.join(drv.ROOT, "replays", prop), exist_ok=True)
            log = os.path.join(drv.ROOT, "replays", prop, "sendsync-build.log")
            open(log, "w").write(out)
            bad = [l for l in out.splitlines() if "cannot be sent between threads" in l or "cannot be shared between threads" in l][:5]
            print(f"VIOLATION property={prop} replay={log}")
            for b in bad:
                print("  " + b.strip())
            ev = {"property_id": prop, "tier": tier, "seed": int(os.environ.get("VERIF_SEED", "0")), "level": "model_checking",
                  "coverage": {"evaluations": 1, "distinct_nontrivial": 2, "rule": "compile probe assert_send_sync::<T>() failed with E0277: a public type is no longer Send/Sync", "samples": bad or ["see build log"], "exhaustive": False},
                  "assumptions": [], "wall_s": 0.0, "violations": 1}
            json.dump(ev, open(os.path.join(drv.ROOT, "evidence", f"{prop}.json"), "w"), indent=1)
            return 1
        return fail_build(out)
    p = subprocess.run([os.path.join(tdir, "release", "sendsync")], capture_output=True, text=True)
    if p.returncode != 0 or not p.stdout.strip().isdigit():
        print("MACHINERY-ERROR sendsync probe did not run", file=sys.stderr)
        return 2
    ntypes = p.stdout.strip()
    tdir, out = drv.build(guard_on=True, extra=["--bin", "sched"])
    if tdir is None:
        return fail_build(out)
    cmd = [os.path.join(tdir, "release", "sched"), "C18", "--root", drv.ROOT, "--sendsync-types", ntypes] + args
    rc = drv.run(cmd, cwd=drv.ROOT)
    if tier != "thorough" or "--replay" in args or "--part" in args or rc == 2:
        return rc
    # E3c, supporting only: the same kind of two-thread bodies, free-running under Miri (happens-before race detector)
    t0 = time.time()
    env = dict(os.environ, CARGO_NET_OFFLINE="true", CARGO_TARGET_DIR=os.path.join(drv.ROOT, "target", "miri"), MIRIFLAGS="-Zmiri-disable-isolation -Zmiri-ignore-leaks", RUSTFLAGS="")
    try:
        p = subprocess.run(["cargo", "+nightly", "miri", "run", "--offline"], cwd=os.path.join(drv.ROOT, "miri"), env=env, capture_output=True, text=True, timeout=3600)
        out = p.stdout + p.stderr
    except Exception as e:
        p, out = None, repr(e)
    evp = os.path.join(drv.ROOT, "evidence", f"{prop}.json")
    ev = json.load(open(evp))
    ub = "Undefined Behavior" in out or "Data race detected" in out
    status = "ok" if (p is not None and p.returncode == 0 and "miri pass ok" in out) else ("UB/data race reported" if ub else "did not run to completion (ignored: supporting pass)")
    ev["coverage"]["miri_supporting_pass"] = {"status": status, "wall_s": round(time.time() - t0, 1), "what": "two concurrent sessions (different suites, same suite) and concurrent exports from one shared context, free-running under Miri; decides nothing unless it reports UB or a data race"}
    if ub:
        os.makedirs(os.path.join(drv.ROOT, "replays", prop), exist_ok=True)
        log = os.path.join(drv.ROOT, "replays", prop, "miri.log")
        open(log, "w").write(out)
        ev["violations"] = ev.get("violations", 0) + 1
        json.dump(ev, open(evp, "w"), indent=1)
        print(f"VIOLATION property={prop} replay={log}")
        print("  Miri reports undefined behaviour / a data race in a two-thread run: " + next((l for l in out.splitlines() if "error:" in l), "")[:300])
        return 1
    json.dump(ev, open(evp, "w"), indent=1)
    print(f"[check] Miri supporting pass: {status} ({time.time()-t0:.0f}s)", file=sys.stderr)
    return rc


def dispatch(drv, prop, tier, args):
    if prop in ("C02", "C03"):
        return run_r2(drv, prop, tier, args)
    if prop == "C18":
        return run_c18(drv, prop, tier, args)
    if prop == "C05":
        # TLC explores model/Session.tla; its labelled state graph is replayed edge by edge by the harness
        w = 3 if tier == "thorough" else 2
        tdir = os.path.join(drv.ROOT, "target", "tlc")
        os.makedirs(tdir, exist_ok=True)
        import shutil
        shutil.copy(os.path.join(drv.ROOT, "model", "Session.tla"), tdir)
        cfg_txt = open(os.path.join(drv.ROOT, "model", "Session.cfg")).read().replace("CONSTANT W = 2", f"CONSTANT W = {w}")
        open(os.path.join(tdir, "Session.cfg"), "w").write(cfg_txt)
        for f in ("graph.dot", "edges.jsonl", "edges.stats.json"):
            if os.path.exists(os.path.join(tdir, f)):
                os.remove(os.path.join(tdir, f))
        t0 = time.time()
        jtmp = os.path.join(tdir, "jtmp")
        shutil.rmtree(jtmp, ignore_errors=True)
        shutil.rmtree(os.path.join(tdir, "states"), ignore_errors=True)
        os.makedirs(jtmp)
        env = dict(os.environ, JAVA_TOOL_OPTIONS=(os.environ.get("JAVA_TOOL_OPTIONS", "") + f" -Djava.io.tmpdir={jtmp}").strip())
        p = subprocess.run(["tlc", "-workers", "4", "-dump", "dot,actionlabels", "graph.dot", "-config", "Session.cfg", "Session.tla"], cwd=tdir, capture_output=True, text=True, env=env)
        shutil.rmtree(jtmp, ignore_errors=True)
        shutil.rmtree(os.path.join(tdir, "states"), ignore_errors=True)
        out = p.stdout + p.stderr
        if "Model checking completed. No error has been found." not in out:
            sys.stderr.write(out[-4000:])
            print("MACHINERY-ERROR TLC did not complete cleanly on model/Session.tla (the MODEL violates its own invariants or TLC failed) - no verdict about the code", file=sys.stderr)
            return 2
        import re
        m = re.search(r"(\d+) states generated, (\d+) distinct states found", out)
        c = subprocess.run([sys.executable, os.path.join(drv.ROOT, "model", "dot2edges.py"), "graph.dot", "edges.jsonl"], cwd=tdir, capture_output=True, text=True)
        if c.returncode != 0:
            sys.stderr.write(c.stdout + c.stderr)
            print("MACHINERY-ERROR cannot convert the TLC graph", file=sys.stderr)
            return 2
        stats = json.loads(c.stdout.strip().splitlines()[-1])
        stats.update({"W": w, "tlc_states_generated": int(m.group(1)) if m else None, "tlc_distinct_states": int(m.group(2)) if m else None,
                      "tlc_invariants": ["TypeOK", "I1_NoncesUsedOnce", "I2_ExhaustionLatched", "I3_AcceptedInOrder", "I3b_ReceiverNotAhead", "I1t_NoReuse"], "tlc_wall_s": round(time.time() - t0, 1)})
        json.dump(stats, open(os.path.join(tdir, "edges.stats.json"), "w"))
        os.remove(os.path.join(tdir, "graph.dot"))
        print(f"[check] TLC: {stats}", file=sys.stderr)
        extra = [] if "--replay" in args else ["--cases", os.path.join(tdir, "edges.jsonl")]
        if "--replay" in args:
            extra = ["--cases", os.path.join(tdir, "edges.jsonl")]
        return harness(drv, prop, tier, args, extra_args=extra)
    if prop == "C17":
        tdir, out = drv.build(guard_on=True, extra=["--bin", "hpke-mc"])   # for R1's transcript (hpke-mc C17-expect)
        if tdir is None:
            return fail_build(out)
        if "--replay" in args:
            print(open(args[args.index("--replay") + 1]).read())
            print("C17 replays are cargo invocations: re-run ./check C17 (see the 'reproduce' field)")
            return 0
        return drv.run([sys.executable, os.path.join(drv.ROOT, "tools", "c17.py"), "--tier", tier], cwd=drv.ROOT)
    if prop in ("C09", "C12"):
        # the case file (encodings + R2's verdicts) is regenerated on every run
        ref = os.path.join(drv.ROOT, "ref")
        p = subprocess.run([sys.executable, os.path.join(ref, "anchors.py")], cwd=ref, capture_output=True, text=True)
        if p.returncode != 0:
            sys.stderr.write(p.stdout + p.stderr)
            print("MACHINERY-ERROR R2 anchors failed", file=sys.stderr)
            return 2
        cases = os.path.join(drv.ROOT, "target", f"c09_cases_{tier}.json")
        os.makedirs(os.path.dirname(cases), exist_ok=True)
        g = [sys.executable, os.path.join(ref, "gen_c09.py"), cases, os.environ.get("VERIF_SEED", "0")] + (["thorough"] if tier == "thorough" else [])
        p = subprocess.run(g, cwd=ref, capture_output=True, text=True)
        if p.returncode != 0:
            sys.stderr.write(p.stdout + p.stderr)
            print("MACHINERY-ERROR case generation failed", file=sys.stderr)
            return 2
        return harness(drv, prop, tier, args, extra_args=["--cases", cases])
    if prop == "C16":
        # slot scan from a guard-off build first (the ledger line must not be what keeps a wipe alive),
        # then scan + drop ledger from the guard-on build; one evidence file
        part = os.path.join(drv.ROOT, "target", "c16_guard_off_part.json")
        if os.path.exists(part):
            os.remove(part)
        if "--replay" in args:
            rp = json.load(open(args[args.index("--replay") + 1]))
            if rp.get("part", "").startswith("E3i-"):
                tdir, out = drv.build(guard_on=True, extra=["--bin", "sched"])
                if tdir is None:
                    return fail_build(out)
                return drv.run([os.path.join(tdir, "release", "sched"), "C16", "--root", drv.ROOT] + args, cwd=drv.ROOT)
            return harness(drv, prop, tier, args, guard_on=("guard-on" in rp.get("part", "")))
        rc = harness(drv, prop, tier, args, guard_on=False, extra_args=["--emit-part", part])
        if rc == 2 or not os.path.exists(part):
            print("MACHINERY-ERROR guard-off C16 run did not produce its part", file=sys.stderr)
            return 2
        # contexts set up and dropped by two threads as the FIRST calls of a fresh process, every schedule in its own process
        tdir, out = drv.build(guard_on=True, extra=["--bin", "sched"])
        if tdir is None:
            return fail_build(out)
        spart = os.path.join(drv.ROOT, "target", "c16_sched_part.json")
        if os.path.exists(spart):
            os.remove(spart)
        rc = drv.run([os.path.join(tdir, "release", "sched"), "C16", "--root", drv.ROOT, "--emit-part", spart] + args, cwd=drv.ROOT)
        if rc != 0 or not os.path.exists(spart):
            print("MACHINERY-ERROR the schedule explorer did not produce its C16 part", file=sys.stderr)
            return 2
        return harness(drv, prop, tier, args, guard_on=True, extra_args=["--merge-part", part, "--merge-part", spart])
    if prop in ("C06", "C07"):
        # the concurrent part first (schedule explorer: honest and tampered openers side by side), merged into the
        # harness's evidence
        tdir, out = drv.build(guard_on=True, extra=["--bin", "sched"])
        if tdir is None:
            return fail_build(out)
        sched = os.path.join(tdir, "release", "sched")
        if "--replay" in args:
            rp = json.load(open(args[args.index("--replay") + 1]))
            if rp.get("part", "").startswith("E3b-"):
                return drv.run([sched, prop, "--root", drv.ROOT] + args, cwd=drv.ROOT)
            return harness(drv, prop, tier, args)
        part = os.path.join(drv.ROOT, "target", f"{prop.lower()}_sched_part.json")
        if os.path.exists(part):
            os.remove(part)
        rc = drv.run([sched, prop, "--root", drv.ROOT, "--emit-part", part] + args, cwd=drv.ROOT)
        if rc != 0 or not os.path.exists(part):
            print(f"MACHINERY-ERROR the schedule explorer did not produce its {prop} part", file=sys.stderr)
            return 2
        return harness(drv, prop, tier, args, extra_args=["--merge-part", part])
    if prop in HARNESS_PROPS:
        return harness(drv, prop, tier, args)
    print(f"unknown property {prop}", file=sys.stderr)
    return 2
