#!/bin/sh
# MANIFEST.setup_cmd: build the framework offline from files on disk only.
set -e
cd "$(dirname "$0")"
export CARGO_NET_OFFLINE=true
mkdir -p evidence replays target
echo "[setup] building harness (guard on)"
( cd harness && RUSTFLAGS="--cfg hpke_verif" CARGO_TARGET_DIR="$PWD/../target/on" cargo build --release --offline 2>&1 | tail -2 )
echo "[setup] building harness (guard off)"
( cd harness && RUSTFLAGS="" CARGO_TARGET_DIR="$PWD/../target/off" cargo build --release --offline --bin hpke-mc 2>&1 | tail -2 )
echo "[setup] building harness (guard on, release-user profile)"
( cd harness && RUSTFLAGS="--cfg hpke_verif" CARGO_TARGET_DIR="$PWD/../target/on" cargo build --profile relprod --offline --bin hpke-mc 2>&1 | tail -1 )
echo "[setup] building harness (guard off, release-user profile: what a downstream release build compiles)"
( cd harness && RUSTFLAGS="" CARGO_TARGET_DIR="$PWD/../target/off" cargo build --profile relprod --offline --bin hpke-mc 2>&1 | tail -1 )
echo "[setup] building C18 binaries"
( cd harness && RUSTFLAGS="--cfg hpke_verif" CARGO_TARGET_DIR="$PWD/../target/on" cargo build --release --offline --bins 2>&1 | tail -1 )
echo "[setup] warming the C17 target directories"
python3 tools/c17.py --warm
# one complete quick pass so that every feature subset is already built (results are rewritten by ./check C17)
python3 tools/c17.py --tier quick > /dev/null 2>&1 || true
echo "[setup] R2 anchors"
( cd ref && python3 anchors.py )
echo "[setup] done"
