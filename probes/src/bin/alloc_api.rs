//! C17 probe: the allocating API. Must compile exactly when `alloc` or `std` is enabled.
#![allow(unused)]
use hpke::{aead::ChaCha20Poly1305, kdf::HkdfSha256, rand_core::{CryptoRng, RngCore}, Kem as KemT, OpModeR, OpModeS};

struct Zero;
impl RngCore for Zero {
    fn next_u32(&mut self) -> u32 { 7 }
    fn next_u64(&mut self) -> u64 { 7 }
    fn fill_bytes(&mut self, d: &mut [u8]) { for x in d { *x = 7 } }
}
impl CryptoRng for Zero {}

fn run<K: KemT>(name: &str) {
    let (sk_r, pk_r) = K::derive_keypair(b"alloc api probe");
    let (enc, mut s) = hpke::setup_sender::<ChaCha20Poly1305, HkdfSha256, K, _>(&OpModeS::Base, &pk_r, b"i", &mut Zero).unwrap();
    let ct = s.seal(b"allocating plaintext", b"aad").unwrap();
    let mut r = hpke::setup_receiver::<ChaCha20Poly1305, HkdfSha256, K>(&OpModeR::Base, &sk_r, &enc, b"i").unwrap();
    let pt = r.open(&ct, b"aad").unwrap();
    let (enc2, ct2) = hpke::single_shot_seal::<ChaCha20Poly1305, HkdfSha256, K, _>(&OpModeS::Base, &pk_r, b"i", b"ss", b"aad", &mut Zero).unwrap();
    let pt2 = hpke::single_shot_open::<ChaCha20Poly1305, HkdfSha256, K>(&OpModeR::Base, &sk_r, &enc2, b"i", &ct2, b"aad").unwrap();
    println!("{} alloc ok {} {}", name, pt == b"allocating plaintext", pt2 == b"ss");
    // the allocating forms agree with the in-place forms of the same build (whose transcript is compared with R1)
    let (_, mut s2) = hpke::setup_sender::<ChaCha20Poly1305, HkdfSha256, K, _>(&OpModeS::Base, &pk_r, b"i", &mut Zero).unwrap();
    let mut buf = *b"allocating plaintext";
    let tag = s2.seal_in_place_detached(&mut buf, b"aad").unwrap();
    let mut cat = buf.to_vec();
    cat.extend_from_slice(&hpke::Serializable::to_bytes(&tag));
    println!("{} alloc seal equals in-place seal || tag {}", name, cat == ct);
    // every modified delivery is rejected by the allocating forms too, and rejections do not move the receiver
    let mut r = hpke::setup_receiver::<ChaCha20Poly1305, HkdfSha256, K>(&OpModeR::Base, &sk_r, &enc, b"i").unwrap();
    let mut variants: Vec<(Vec<u8>, &[u8])> = vec![];
    for bit in [0usize, 7, 8 * (ct.len() - 1), 8 * (ct.len() - 16), 8 * (ct.len() - 17) + 3] {
        let mut v = ct.clone();
        v[bit / 8] ^= 1 << (bit % 8);
        variants.push((v, b"aad"));
    }
    variants.push((ct[..ct.len() - 1].to_vec(), b"aad"));
    variants.push((ct[..15].to_vec(), b"aad"));
    variants.push((vec![], b"aad"));
    let mut ext = ct.clone();
    ext.push(0);
    variants.push((ext, b"aad"));
    variants.push((ct.clone(), b"aae"));
    variants.push((ct.clone(), b""));
    let mut all_rejected = true;
    for (v, a) in &variants {
        all_rejected &= matches!(r.open(v, a), Err(hpke::HpkeError::OpenError));
        all_rejected &= matches!(hpke::single_shot_open::<ChaCha20Poly1305, HkdfSha256, K>(&OpModeR::Base, &sk_r, &enc, b"i", v, a), Err(hpke::HpkeError::OpenError));
    }
    println!("{} alloc open rejects {} modified deliveries {}", name, variants.len(), all_rejected);
    println!("{} alloc open still accepts the genuine message afterwards {}", name, r.open(&ct, b"aad").ok().as_deref() == Some(&b"allocating plaintext"[..]));
    println!("{} alloc open rejects a replay {}", name, r.open(&ct, b"aad").is_err());
    let mut out = [0u8; 32];
    let mut out2 = [0u8; 32];
    s.export(b"x", &mut out).unwrap();
    r.export(b"x", &mut out2).unwrap();
    println!("{} alloc contexts export the same {}", name, out == out2);
    // guard-on builds only: the end of the sequence space through the allocating forms
    #[cfg(hpke_verif)]
    {
        let (_, mut s3) = hpke::setup_sender::<ChaCha20Poly1305, HkdfSha256, K, _>(&OpModeS::Base, &pk_r, b"i", &mut Zero).unwrap();
        let mut r3 = hpke::setup_receiver::<ChaCha20Poly1305, HkdfSha256, K>(&OpModeR::Base, &sk_r, &enc, b"i").unwrap();
        s3.verif_set_seq(u64::MAX);
        r3.verif_set_seq(u64::MAX);
        let last = s3.seal(b"last", b"").unwrap();
        let mut ok = r3.open(&last, b"").ok().as_deref() == Some(&b"last"[..]);
        for l in [0usize, 1, 15, 16, 17, 40] {
            ok &= matches!(r3.open(&vec![0u8; l], b""), Err(hpke::HpkeError::MessageLimitReached));
        }
        ok &= matches!(r3.open(&last, b""), Err(hpke::HpkeError::MessageLimitReached));
        ok &= matches!(s3.seal(b"x", b""), Err(hpke::HpkeError::MessageLimitReached));
        println!("{} alloc exhausted contexts refuse every input with MessageLimitReached {}", name, ok);
    }
}

fn main() {
    #[cfg(feature = "x25519")]
    run::<hpke::kem::X25519HkdfSha256>("X25519");
    #[cfg(feature = "p256")]
    run::<hpke::kem::DhP256HkdfSha256>("P256");
    #[cfg(feature = "p384")]
    run::<hpke::kem::DhP384HkdfSha384>("P384");
    #[cfg(feature = "p521")]
    run::<hpke::kem::DhP521HkdfSha512>("P521");
    // with no KEM enabled the allocating methods still have to exist: name them without calling
    let _f = hpke::aead::AeadCtxS::<ChaCha20Poly1305, HkdfSha256, Dummy>::seal;
    let _g = hpke::aead::AeadCtxR::<ChaCha20Poly1305, HkdfSha256, Dummy>::open;
    let _h = hpke::single_shot_seal::<ChaCha20Poly1305, HkdfSha256, Dummy, Zero>;
    let _i = hpke::single_shot_open::<ChaCha20Poly1305, HkdfSha256, Dummy>;
    println!("alloc api present");
}

// A KEM that exists under every feature subset is needed to name the generic methods: a minimal one
pub struct Dummy;
#[derive(Clone, Debug, PartialEq, Eq)]
pub struct DKey([u8; 1]);
impl hpke::Serializable for DKey {
    type OutputSize = hpke::generic_array::typenum::U1;
    fn write_exact(&self, buf: &mut [u8]) { buf.copy_from_slice(&self.0) }
}
impl hpke::Deserializable for DKey {
    fn from_bytes(b: &[u8]) -> Result<Self, hpke::HpkeError> { Ok(DKey([b[0]])) }
}
impl KemT for Dummy {
    type PublicKey = DKey;
    type PrivateKey = DKey;
    type EncappedKey = DKey;
    type NSecret = hpke::generic_array::typenum::U1;
    const KEM_ID: u16 = 0xfffe;
    fn sk_to_pk(sk: &DKey) -> DKey { sk.clone() }
    fn derive_keypair(_ikm: &[u8]) -> (DKey, DKey) { (DKey([1]), DKey([1])) }
    fn decap(_: &DKey, _: Option<&DKey>, _: &DKey) -> Result<hpke::kem::SharedSecret<Self>, hpke::HpkeError> { Ok(Default::default()) }
    fn encap<R: CryptoRng + RngCore>(_: &DKey, _: Option<(&DKey, &DKey)>, _: &mut R) -> Result<(hpke::kem::SharedSecret<Self>, DKey), hpke::HpkeError> { Ok((Default::default(), DKey([1]))) }
}
