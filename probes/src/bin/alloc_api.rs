//! C17 probe: the allocating API. Must compile exactly when `alloc` or `std` is enabled.
#![allow(unused)]
use hpke::{aead::ChaCha20Poly1305, kdf::HkdfSha256, rand_core::{CryptoRng, RngCore}, Kem as KemT, OpModeR, OpModeS};

struct Zero;
impl RngCore for Zero {
    fn next_u32(&mut self) -> u32 { 7 }
    fn next_u64(&mut self) -> u64 { 7 }
    fn fill_bytes(&mut self, d: &mut [u8]) { for x in d { *x = 7 } }
}
impl CryptoRng for Zero {}

fn run<K: KemT>(name: &str) {
    let (sk_r, pk_r) = K::derive_keypair(b"alloc api probe");
    let (enc, mut s) = hpke::setup_sender::<ChaCha20Poly1305, HkdfSha256, K, _>(&OpModeS::Base, &pk_r, b"i", &mut Zero).unwrap();
    let ct = s.seal(b"allocating plaintext", b"aad").unwrap();
    let mut r = hpke::setup_receiver::<ChaCha20Poly1305, HkdfSha256, K>(&OpModeR::Base, &sk_r, &enc, b"i").unwrap();
    let pt = r.open(&ct, b"aad").unwrap();
    let (enc2, ct2) = hpke::single_shot_seal::<ChaCha20Poly1305, HkdfSha256, K, _>(&OpModeS::Base, &pk_r, b"i", b"ss", b"aad", &mut Zero).unwrap();
    let pt2 = hpke::single_shot_open::<ChaCha20Poly1305, HkdfSha256, K>(&OpModeR::Base, &sk_r, &enc2, b"i", &ct2, b"aad").unwrap();
    println!("{} alloc ok {} {}", name, pt == b"allocating plaintext", pt2 == b"ss");
}

fn main() {
    #[cfg(feature = "x25519")]
    run::<hpke::kem::X25519HkdfSha256>("X25519");
    #[cfg(feature = "p256")]
    run::<hpke::kem::DhP256HkdfSha256>("P256");
    #[cfg(feature = "p384")]
    run::<hpke::kem::DhP384HkdfSha384>("P384");
    #[cfg(feature = "p521")]
    run::<hpke::kem::DhP521HkdfSha512>("P521");
    // with no KEM enabled the allocating methods still have to exist: name them without calling
    let _f = hpke::aead::AeadCtxS::<ChaCha20Poly1305, HkdfSha256, Dummy>::seal;
    let _g = hpke::aead::AeadCtxR::<ChaCha20Poly1305, HkdfSha256, Dummy>::open;
    let _h = hpke::single_shot_seal::<ChaCha20Poly1305, HkdfSha256, Dummy, Zero>;
    let _i = hpke::single_shot_open::<ChaCha20Poly1305, HkdfSha256, Dummy>;
    println!("alloc api present");
}

// A KEM that exists under every feature subset is needed to name the generic methods: a minimal one
pub struct Dummy;
#[derive(Clone, Debug, PartialEq, Eq)]
pub struct DKey([u8; 1]);
impl hpke::Serializable for DKey {
    type OutputSize = hpke::generic_array::typenum::U1;
    fn write_exact(&self, buf: &mut [u8]) { buf.copy_from_slice(&self.0) }
}
impl hpke::Deserializable for DKey {
    fn from_bytes(b: &[u8]) -> Result<Self, hpke::HpkeError> { Ok(DKey([b[0]])) }
}
impl KemT for Dummy {
    type PublicKey = DKey;
    type PrivateKey = DKey;
    type EncappedKey = DKey;
    type NSecret = hpke::generic_array::typenum::U1;
    const KEM_ID: u16 = 0xfffe;
    fn sk_to_pk(sk: &DKey) -> DKey { sk.clone() }
    fn derive_keypair(_ikm: &[u8]) -> (DKey, DKey) { (DKey([1]), DKey([1])) }
    fn decap(_: &DKey, _: Option<&DKey>, _: &DKey) -> Result<hpke::kem::SharedSecret<Self>, hpke::HpkeError> { Ok(Default::default()) }
    fn encap<R: CryptoRng + RngCore>(_: &DKey, _: Option<(&DKey, &DKey)>, _: &mut R) -> Result<(hpke::kem::SharedSecret<Self>, DKey), hpke::HpkeError> { Ok((Default::default(), DKey([1]))) }
}
