//! C17 probe: uses ONLY the in-place / non-allocating API, which must exist under every feature
//! subset, and prints a scripted transcript per enabled KEM. The text must be identical under every
//! subset that enables the KEM, and equal to what the reference model R1 prints (hpke-mc C17-expect).
#![allow(unused)]
use hpke::{
    aead::{AeadTag, ChaCha20Poly1305, ExportOnlyAead, AesGcm128},
    kdf::{HkdfSha256, HkdfSha512},
    rand_core::{CryptoRng, RngCore},
    Deserializable, Kem as KemT, OpModeR, OpModeS, PskBundle, Serializable,
};

struct Script(Vec<u8>, usize);
impl RngCore for Script {
    fn next_u32(&mut self) -> u32 {
        let mut b = [0u8; 4];
        self.fill_bytes(&mut b);
        u32::from_le_bytes(b)
    }
    fn next_u64(&mut self) -> u64 {
        let mut b = [0u8; 8];
        self.fill_bytes(&mut b);
        u64::from_le_bytes(b)
    }
    fn fill_bytes(&mut self, d: &mut [u8]) {
        for x in d {
            *x = self.0[self.1 % self.0.len()];
            self.1 += 1;
        }
    }
}
impl CryptoRng for Script {}

fn hex(b: &[u8]) -> String {
    b.iter().map(|x| format!("{:02x}", x)).collect()
}

fn ikm(tag: u8, n: usize) -> Vec<u8> {
    (0..n).map(|i| (i as u8).wrapping_mul(37).wrapping_add(tag)).collect()
}

fn run<K: KemT>(name: &str) {
    let nsk = K::PrivateKey::size();
    let (sk_r, pk_r) = K::derive_keypair(&ikm(1, nsk));
    let (sk_s, pk_s) = K::derive_keypair(&ikm(2, nsk));
    println!("{} derive sk_r {} pk_r {}", name, hex(&sk_r.to_bytes()), hex(&pk_r.to_bytes()));
    let psk = ikm(3, 32);
    let psk_id = ikm(4, 9);
    let info = b"c17 probe";
    for mode in 0..4u8 {
        let bundle = PskBundle::new(&psk, &psk_id).unwrap();
        let (ms, mr) = match mode {
            0 => (OpModeS::<K>::Base, OpModeR::<K>::Base),
            1 => (OpModeS::Psk(bundle), OpModeR::Psk(bundle)),
            2 => (OpModeS::Auth((sk_s.clone(), pk_s.clone())), OpModeR::Auth(pk_s.clone())),
            _ => (OpModeS::AuthPsk((sk_s.clone(), pk_s.clone()), bundle), OpModeR::AuthPsk(pk_s.clone(), bundle)),
        };
        let mut rng = Script(ikm(5 + mode, nsk), 0);
        let (enc, mut s) = hpke::setup_sender::<ChaCha20Poly1305, HkdfSha256, K, _>(&ms, &pk_r, info, &mut rng).unwrap();
        let mut buf = *b"in-place plaintext";
        let tag = s.seal_in_place_detached(&mut buf, b"aad").unwrap();
        let mut ex = [0u8; 32];
        s.export(b"exp", &mut ex).unwrap();
        println!("{} mode {} enc {} ct {} tag {} export {}", name, mode, hex(&enc.to_bytes()), hex(&buf), hex(&tag.to_bytes()), hex(&ex));
        let enc2 = K::EncappedKey::from_bytes(&enc.to_bytes()).unwrap();
        let mut r = hpke::setup_receiver::<ChaCha20Poly1305, HkdfSha256, K>(&mr, &sk_r, &enc2, info).unwrap();
        let tag2 = AeadTag::<ChaCha20Poly1305>::from_bytes(&tag.to_bytes()).unwrap();
        r.open_in_place_detached(&mut buf, b"aad", &tag2).unwrap();
        let mut ex2 = [0u8; 32];
        r.export(b"exp", &mut ex2).unwrap();
        println!("{} mode {} opened {} rexport {}", name, mode, hex(&buf), hex(&ex2));
        // single-shot in-place forms
        let mut rng = Script(ikm(5 + mode, nsk), 0);
        let mut buf = *b"single shot";
        let (enc, tag) = hpke::single_shot_seal_in_place_detached::<AesGcm128, HkdfSha512, K, _>(&ms, &pk_r, info, &mut buf, b"a", &mut rng).unwrap();
        let ct = buf;
        hpke::single_shot_open_in_place_detached::<AesGcm128, HkdfSha512, K>(&mr, &sk_r, &enc, info, &mut buf, b"a", &tag).unwrap();
        println!("{} mode {} ss-ct {} ss-tag {} ss-opened {}", name, mode, hex(&ct), hex(&tag.to_bytes()), hex(&buf));
    }
    // export-only suite
    let mut rng = Script(ikm(9, nsk), 0);
    let (_enc, s) = hpke::setup_sender::<ExportOnlyAead, HkdfSha512, K, _>(&OpModeS::Base, &pk_r, info, &mut rng).unwrap();
    let mut ex = [0u8; 48];
    s.export(b"", &mut ex).unwrap();
    println!("{} export-only {}", name, hex(&ex));
}

fn main() {
    #[cfg(feature = "x25519")]
    run::<hpke::kem::X25519HkdfSha256>("X25519");
    #[cfg(feature = "p256")]
    run::<hpke::kem::DhP256HkdfSha256>("P256");
    #[cfg(feature = "p384")]
    run::<hpke::kem::DhP384HkdfSha384>("P384");
    #[cfg(feature = "p521")]
    run::<hpke::kem::DhP521HkdfSha512>("P521");
    // the error type and its Display impl exist everywhere
    println!("error-display {}", hpke::HpkeError::IncorrectInputLength(1, 2));
    #[cfg(hpke_verif)]
    println!("guard on");
}
