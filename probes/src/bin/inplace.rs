//! C17 probe: uses ONLY the in-place / non-allocating API, which must exist under every feature
//! subset, and prints a scripted transcript per enabled KEM. The text must be identical under every
//! subset that enables the KEM, and equal to what the reference model R1 prints (hpke-mc C17-expect).
#![allow(unused)]
use hpke::{
    aead::{AeadTag, ChaCha20Poly1305, ExportOnlyAead, AesGcm128},
    kdf::{HkdfSha256, HkdfSha512},
    rand_core::{CryptoRng, RngCore},
    Deserializable, Kem as KemT, OpModeR, OpModeS, PskBundle, Serializable,
};

struct Script(Vec<u8>, usize);
impl RngCore for Script {
    fn next_u32(&mut self) -> u32 {
        let mut b = [0u8; 4];
        self.fill_bytes(&mut b);
        u32::from_le_bytes(b)
    }
    fn next_u64(&mut self) -> u64 {
        let mut b = [0u8; 8];
        self.fill_bytes(&mut b);
        u64::from_le_bytes(b)
    }
    fn fill_bytes(&mut self, d: &mut [u8]) {
        for x in d {
            *x = self.0[self.1 % self.0.len()];
            self.1 += 1;
        }
    }
}
impl CryptoRng for Script {}

fn hex(b: &[u8]) -> String {
    b.iter().map(|x| format!("{:02x}", x)).collect()
}

fn ikm(tag: u8, n: usize) -> Vec<u8> {
    (0..n).map(|i| (i as u8).wrapping_mul(37).wrapping_add(tag)).collect()
}

fn run<K: KemT>(name: &str) {
    let nsk = K::PrivateKey::size();
    let (sk_r, pk_r) = K::derive_keypair(&ikm(1, nsk));
    let (sk_s, pk_s) = K::derive_keypair(&ikm(2, nsk));
    println!("{} derive sk_r {} pk_r {}", name, hex(&sk_r.to_bytes()), hex(&pk_r.to_bytes()));
    let psk = ikm(3, 32);
    let psk_id = ikm(4, 9);
    let info = b"c17 probe";
    for mode in 0..4u8 {
        let bundle = PskBundle::new(&psk, &psk_id).unwrap();
        let (ms, mr) = match mode {
            0 => (OpModeS::<K>::Base, OpModeR::<K>::Base),
            1 => (OpModeS::Psk(bundle), OpModeR::Psk(bundle)),
            2 => (OpModeS::Auth((sk_s.clone(), pk_s.clone())), OpModeR::Auth(pk_s.clone())),
            _ => (OpModeS::AuthPsk((sk_s.clone(), pk_s.clone()), bundle), OpModeR::AuthPsk(pk_s.clone(), bundle)),
        };
        let mut rng = Script(ikm(5 + mode, nsk), 0);
        let (enc, mut s) = hpke::setup_sender::<ChaCha20Poly1305, HkdfSha256, K, _>(&ms, &pk_r, info, &mut rng).unwrap();
        let mut buf = *b"in-place plaintext";
        let tag = s.seal_in_place_detached(&mut buf, b"aad").unwrap();
        let mut ex = [0u8; 32];
        s.export(b"exp", &mut ex).unwrap();
        println!("{} mode {} enc {} ct {} tag {} export {}", name, mode, hex(&enc.to_bytes()), hex(&buf), hex(&tag.to_bytes()), hex(&ex));
        let enc2 = K::EncappedKey::from_bytes(&enc.to_bytes()).unwrap();
        let mut r = hpke::setup_receiver::<ChaCha20Poly1305, HkdfSha256, K>(&mr, &sk_r, &enc2, info).unwrap();
        let tag2 = AeadTag::<ChaCha20Poly1305>::from_bytes(&tag.to_bytes()).unwrap();
        r.open_in_place_detached(&mut buf, b"aad", &tag2).unwrap();
        let mut ex2 = [0u8; 32];
        r.export(b"exp", &mut ex2).unwrap();
        println!("{} mode {} opened {} rexport {}", name, mode, hex(&buf), hex(&ex2));
        // single-shot in-place forms
        let mut rng = Script(ikm(5 + mode, nsk), 0);
        let mut buf = *b"single shot";
        let (enc, tag) = hpke::single_shot_seal_in_place_detached::<AesGcm128, HkdfSha512, K, _>(&ms, &pk_r, info, &mut buf, b"a", &mut rng).unwrap();
        let ct = buf;
        hpke::single_shot_open_in_place_detached::<AesGcm128, HkdfSha512, K>(&mr, &sk_r, &enc, info, &mut buf, b"a", &tag).unwrap();
        println!("{} mode {} ss-ct {} ss-tag {} ss-opened {}", name, mode, hex(&ct), hex(&tag.to_bytes()), hex(&buf));
    }
    // export-only suite
    let mut rng = Script(ikm(9, nsk), 0);
    let (_enc, s) = hpke::setup_sender::<ExportOnlyAead, HkdfSha512, K, _>(&OpModeS::Base, &pk_r, info, &mut rng).unwrap();
    let mut ex = [0u8; 48];
    s.export(b"", &mut ex).unwrap();
    println!("{} export-only {}", name, hex(&ex));
    behaviour::<K>(name, &sk_r, &pk_r);
}

/// Yes/no facts that must hold under every feature subset (hpke-mc C17-expect prints the same lines, all `true`)
fn behaviour<K: KemT>(name: &str, sk_r: &K::PrivateKey, pk_r: &K::PublicKey) {
    use hpke::HpkeError as E;
    let info = b"c17 behaviour";
    let nsk = K::PrivateKey::size();
    let npk = K::PublicKey::size();
    let mut rng = Script(ikm(11, nsk), 0);
    let (enc, mut s) = hpke::setup_sender::<ChaCha20Poly1305, HkdfSha256, K, _>(&OpModeS::Base, pk_r, info, &mut rng).unwrap();
    let mut r = hpke::setup_receiver::<ChaCha20Poly1305, HkdfSha256, K>(&OpModeR::Base, sk_r, &enc, info).unwrap();
    let mut m0 = *b"message zero";
    let t0 = s.seal_in_place_detached(&mut m0, b"a0").unwrap();
    let mut m1 = *b"message one!";
    let t1 = s.seal_in_place_detached(&mut m1, b"a1").unwrap();
    // integrity and sequencing through the in-place form
    let mut ok = true;
    for variant in 0..5 {
        let mut b = m0;
        let mut tag = t0.to_bytes();
        let mut aad = *b"a0";
        match variant {
            0 => b[0] ^= 1,
            1 => b[11] ^= 0x80,
            2 => tag[0] ^= 1,
            3 => tag[15] ^= 0x80,
            _ => aad[1] ^= 1,
        }
        let tag = AeadTag::<ChaCha20Poly1305>::from_bytes(&tag).unwrap();
        ok &= matches!(r.open_in_place_detached(&mut b, &aad, &tag), Err(E::OpenError));
    }
    let mut b = m1;
    ok &= matches!(r.open_in_place_detached(&mut b, b"a1", &t1), Err(E::OpenError)); // message 1 before message 0
    println!("{} rejects modified and out-of-order deliveries {}", name, ok);
    let mut b = m0;
    let first = r.open_in_place_detached(&mut b, b"a0", &t0).is_ok() && &b == b"message zero";
    let mut b = m0;
    let replay = matches!(r.open_in_place_detached(&mut b, b"a0", &t0), Err(E::OpenError));
    let mut b = m1;
    let second = r.open_in_place_detached(&mut b, b"a1", &t1).is_ok() && &b == b"message one!";
    println!("{} accepts the messages in order and rejects a replay {}", name, first && replay && second);
    // export length limit
    let mut big = vec![0u8; 255 * 32 + 1];
    let lim_ok = s.export(b"x", &mut big[..255 * 32]).is_ok() && r.export(b"x", &mut big[..255 * 32]).is_ok();
    let lim_err = matches!(s.export(b"x", &mut big), Err(E::KdfOutputTooLong)) && matches!(r.export(b"x", &mut big), Err(E::KdfOutputTooLong));
    println!("{} export succeeds up to 255*Nh and fails beyond {}", name, lim_ok && lim_err);
    // serialization sizes and length errors
    let sizes = pk_r.to_bytes().len() == npk && sk_r.to_bytes().len() == nsk && enc.to_bytes().len() == K::EncappedKey::size() && t0.to_bytes().len() == 16;
    let short = matches!(K::PublicKey::from_bytes(&pk_r.to_bytes()[..npk - 1]), Err(E::IncorrectInputLength(a, b)) if a == npk && b == npk - 1)
        && matches!(K::PrivateKey::from_bytes(&[]), Err(E::IncorrectInputLength(a, 0)) if a == nsk)
        && matches!(K::EncappedKey::from_bytes(&[4u8; 200]), Err(E::IncorrectInputLength(a, 200)) if a == K::EncappedKey::size())
        && matches!(AeadTag::<ChaCha20Poly1305>::from_bytes(&[0u8; 15]), Err(E::IncorrectInputLength(16, 15)));
    println!("{} serialized sizes and length errors {}", name, sizes && short);
    let rt = K::PublicKey::from_bytes(&pk_r.to_bytes()).map(|p| p.to_bytes() == pk_r.to_bytes()).unwrap_or(false)
        && K::PrivateKey::from_bytes(&sk_r.to_bytes()).map(|k| K::sk_to_pk(&k).to_bytes() == pk_r.to_bytes()).unwrap_or(false);
    println!("{} keys survive a serialization round trip {}", name, rt);
    // invalid key material
    let bad_keys = if npk == 32 {
        // X25519: a small-order encapsulated key / recipient key aborts setup
        let zero = K::EncappedKey::from_bytes(&[0u8; 32]).unwrap();
        let zpk = K::PublicKey::from_bytes(&[0u8; 32]).unwrap();
        let mut rng = Script(ikm(12, nsk), 0);
        matches!(hpke::setup_receiver::<ChaCha20Poly1305, HkdfSha256, K>(&OpModeR::Base, sk_r, &zero, info), Err(E::DecapError))
            && matches!(hpke::setup_sender::<ChaCha20Poly1305, HkdfSha256, K, _>(&OpModeS::Base, &zpk, info, &mut rng), Err(E::EncapError))
    } else {
        let mut off = pk_r.to_bytes().to_vec();
        let l = off.len();
        off[l - 1] ^= 1; // no longer on the curve
        let mut compressed = pk_r.to_bytes().to_vec();
        compressed[0] = 2;
        matches!(K::PublicKey::from_bytes(&off), Err(E::ValidationError))
            && matches!(K::EncappedKey::from_bytes(&off), Err(E::ValidationError))
            && matches!(K::PublicKey::from_bytes(&compressed), Err(E::ValidationError))
            && matches!(K::PublicKey::from_bytes(&vec![0u8; npk]), Err(E::ValidationError))
            && matches!(K::PrivateKey::from_bytes(&vec![0u8; nsk]), Err(E::ValidationError))
            && matches!(K::PrivateKey::from_bytes(&vec![0xffu8; nsk]), Err(E::ValidationError))
    };
    println!("{} invalid key material is refused {}", name, bad_keys);
    let psk_rule = matches!(PskBundle::new(b"", b"id"), Err(E::InvalidPskBundle)) && matches!(PskBundle::new(b"k", b""), Err(E::InvalidPskBundle)) && PskBundle::new(b"", b"").is_ok() && PskBundle::new(b"k", b"i").is_ok();
    println!("{} psk and psk_id together or not at all {}", name, psk_rule);
    // a receiver with another info string shares nothing with the sender
    let mut r2 = hpke::setup_receiver::<ChaCha20Poly1305, HkdfSha256, K>(&OpModeR::Base, sk_r, &enc, b"c17 behaviour\0").unwrap();
    let mut b = m0;
    let mut e1 = [0u8; 32];
    let mut e2 = [0u8; 32];
    s.export(b"y", &mut e1).unwrap();
    r2.export(b"y", &mut e2).unwrap();
    println!("{} a mismatched receiver shares no key material {}", name, r2.open_in_place_detached(&mut b, b"a0", &t0).is_err() && e1 != e2);
}

fn main() {
    #[cfg(feature = "x25519")]
    run::<hpke::kem::X25519HkdfSha256>("X25519");
    #[cfg(feature = "p256")]
    run::<hpke::kem::DhP256HkdfSha256>("P256");
    #[cfg(feature = "p384")]
    run::<hpke::kem::DhP384HkdfSha384>("P384");
    #[cfg(feature = "p521")]
    run::<hpke::kem::DhP521HkdfSha512>("P521");
    // the error type and its Display impl exist everywhere
    println!("error-display {}", hpke::HpkeError::IncorrectInputLength(1, 2));
    #[cfg(hpke_verif)]
    println!("guard on");
}
