//! C17 probe for C16: in EVERY feature subset, dropping a context wipes the exporter secret and the base nonce.
//! The secrets to look for come from the reference model R1 (environment variable C17_WIPE_SECRETS, written by
//! tools/c17.py from `hpke-mc C17-expect`): "<KEM>:<exporter_secret hex>:<base_nonce hex>;...". In-place API only.
#![allow(unused)]
use core::mem::MaybeUninit;
use hpke::{
    aead::{AeadCtxR, AeadCtxS, ChaCha20Poly1305},
    kdf::HkdfSha256,
    rand_core::{CryptoRng, RngCore},
    Deserializable, Kem as KemT, OpModeR, OpModeS, Serializable,
};

struct Script(Vec<u8>, usize);
impl RngCore for Script {
    fn next_u32(&mut self) -> u32 {
        let mut b = [0u8; 4];
        self.fill_bytes(&mut b);
        u32::from_le_bytes(b)
    }
    fn next_u64(&mut self) -> u64 {
        let mut b = [0u8; 8];
        self.fill_bytes(&mut b);
        u64::from_le_bytes(b)
    }
    fn fill_bytes(&mut self, d: &mut [u8]) {
        for x in d {
            *x = self.0[self.1 % self.0.len()];
            self.1 += 1;
        }
    }
}
impl CryptoRng for Script {}

fn ikm(tag: u8, n: usize) -> Vec<u8> {
    (0..n).map(|i| (i as u8).wrapping_mul(37).wrapping_add(tag)).collect()
}

fn unhex(s: &str) -> Vec<u8> {
    (0..s.len() / 2).map(|i| u8::from_str_radix(&s[2 * i..2 * i + 2], 16).unwrap()).collect()
}

fn find(h: &[u8], n: &[u8]) -> bool {
    !n.is_empty() && h.len() >= n.len() && (0..=h.len() - n.len()).any(|i| &h[i..i + n.len()] == n)
}

/// moves `v` into a heap slot, checks both secrets are visible there, drops it in place, checks they are gone
fn slot<T>(v: T, exporter: &[u8], nonce: &[u8]) -> (bool, bool) {
    let mut b: Box<MaybeUninit<T>> = Box::new(MaybeUninit::uninit());
    b.write(v);
    let bytes = |b: &Box<MaybeUninit<T>>| -> Vec<u8> { unsafe { core::slice::from_raw_parts(b.as_ptr() as *const u8, core::mem::size_of::<T>()) }.to_vec() };
    let before = bytes(&b);
    let seen = find(&before, exporter) && find(&before, nonce);
    unsafe { core::ptr::drop_in_place(b.as_mut_ptr()) };
    let after = bytes(&b);
    let gone = !find(&after, exporter) && !find(&after, nonce);
    (seen, gone)
}

fn run<K: KemT>(name: &str, secrets: &str) {
    let entry = secrets.split(';').find(|e| e.starts_with(&format!("{}:", name)));
    let Some(entry) = entry else {
        println!("{} wipe probe has no reference secrets false", name);
        return;
    };
    let parts: Vec<&str> = entry.split(':').collect();
    let (exporter, nonce) = (unhex(parts[1]), unhex(parts[2]));
    // the session of the in-place probe: mode 0 (Base), ChaCha20Poly1305 / HKDF-SHA256, info "c17 probe"
    let nsk = K::PrivateKey::size();
    let (sk_r, pk_r) = K::derive_keypair(&ikm(1, nsk));
    let mut rng = Script(ikm(5, nsk), 0);
    let (enc, s) = hpke::setup_sender::<ChaCha20Poly1305, HkdfSha256, K, _>(&OpModeS::Base, &pk_r, b"c17 probe", &mut rng).unwrap();
    let r = hpke::setup_receiver::<ChaCha20Poly1305, HkdfSha256, K>(&OpModeR::Base, &sk_r, &enc, b"c17 probe").unwrap();
    let (seen_s, gone_s) = slot::<AeadCtxS<ChaCha20Poly1305, HkdfSha256, K>>(s, &exporter, &nonce);
    let (seen_r, gone_r) = slot::<AeadCtxR<ChaCha20Poly1305, HkdfSha256, K>>(r, &exporter, &nonce);
    println!("{} live contexts hold R1's exporter secret and base nonce {}", name, seen_s && seen_r);
    println!("{} dropped contexts no longer hold them {}", name, gone_s && gone_r);
}

fn main() {
    let secrets = std::env::var("C17_WIPE_SECRETS").unwrap_or_default();
    #[cfg(feature = "x25519")]
    run::<hpke::kem::X25519HkdfSha256>("X25519", &secrets);
    #[cfg(feature = "p256")]
    run::<hpke::kem::DhP256HkdfSha256>("P256", &secrets);
    #[cfg(feature = "p384")]
    run::<hpke::kem::DhP384HkdfSha384>("P384", &secrets);
    #[cfg(feature = "p521")]
    run::<hpke::kem::DhP521HkdfSha512>("P521", &secrets);
    println!("wipe probe ran");
}
